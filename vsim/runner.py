"""Batch runner: seeds -> scenarios -> parallel deterministic runs -> verdict, replay files, evidence.

Exit codes: 0 property held on everything explored (KNOWN-FINDING lines possible); 1 violation
(`VIOLATION property=<id> replay=<path>`); 2 harness error (never a verdict).
"""
import argparse
import concurrent.futures as cf
import copy
import faulthandler
import hashlib
import importlib
import json
import multiprocessing
import os
import random
import signal
import subprocess
import sys
import time
import traceback

from . import VERIF, REPO, shim

EVIDENCE_DIR = os.path.join(VERIF, "evidence")
REPLAY_DIR = os.path.join(VERIF, "replays")
KNOWN = os.path.join(VERIF, "known_findings.json")
RUN_TIMEOUT_S = int(os.environ.get("VSIM_RUN_TIMEOUT", "900"))


def run_seed(verif_seed, prop, index):
    h = hashlib.sha256(("%d:%s:%d" % (verif_seed, prop, index)).encode()).hexdigest()
    return int(h[:12], 16)


def load_prop(prop):
    return importlib.import_module("vsim.props.%s" % prop.lower())


class _Timeout(Exception):
    pass


def _alarm(signum, frame):
    raise _Timeout()


def _arm():
    """Per-run limit in CPU seconds of this process (so a loaded machine does not turn slow runs into harness errors), with a wall-clock
    backstop for a run that blocks without consuming CPU."""
    signal.signal(signal.SIGPROF, _alarm)
    signal.signal(signal.SIGALRM, _alarm)
    signal.setitimer(signal.ITIMER_PROF, RUN_TIMEOUT_S)
    signal.alarm(RUN_TIMEOUT_S * 20)


def _disarm():
    signal.setitimer(signal.ITIMER_PROF, 0)
    signal.alarm(0)


def execute(mod, scn):
    """Run one scenario (pure function of scenario + repo code)."""
    t0 = time.time()
    shim.reset_tracer()
    res = mod.run(scn)
    res["wall"] = time.time() - t0
    return res


def _task(prop, verif_seed, index, tier):
    mod = load_prop(prop)
    seed = run_seed(verif_seed, prop, index)
    _arm()
    try:
        rng = random.Random(seed)
        scn = mod.gen(rng, tier, index)
        scn["property"] = mod.ID
        scn["seed"] = seed
        scn["index"] = index
        res = execute(mod, scn)
        out = {"index": index, "seed": seed, "violations": res.get("violations", []),
               "stats": res.get("stats", {}), "states": res.get("states", []),
               "cycles": res.get("cycles", 0), "sim_ps": res.get("sim_ps", 0),
               "digest": res.get("digest", ""), "nontrivial": bool(res.get("nontrivial", True)),
               "summary": res.get("summary", {}), "wall": res["wall"]}
        for k_ in ("evaluations", "distinct_keys"):
            if k_ in res:
                out[k_] = res[k_]
        if out["violations"] or index < 3:
            out["scenario"] = scn
        return out
    except _Timeout:
        return {"index": index, "seed": seed, "harness_error": "run exceeded %ds CPU" % RUN_TIMEOUT_S}
    except Exception:
        return {"index": index, "seed": seed, "harness_error": traceback.format_exc()}
    finally:
        _disarm()


# ---- shrinking -------------------------------------------------------------------------------------

def _walk_lists(obj, keys, path=()):
    """Yield paths of lists (under a key in `keys`) inside a JSON-like structure."""
    if isinstance(obj, dict):
        for k in sorted(obj):
            v = obj[k]
            if isinstance(v, list) and k in keys:
                yield path + (k,)
            if isinstance(v, (dict, list)):
                yield from _walk_lists(v, keys, path + (k,))
    elif isinstance(obj, list):
        for i, v in enumerate(obj):
            if isinstance(v, (dict, list)):
                yield from _walk_lists(v, keys, path + (i,))


def _walk_ints(obj, keys, path=()):
    if isinstance(obj, dict):
        for k in sorted(obj):
            v = obj[k]
            if isinstance(v, int) and not isinstance(v, bool) and k in keys and v != 0:
                yield path + (k,)
            if isinstance(v, (dict, list)):
                yield from _walk_ints(v, keys, path + (k,))
    elif isinstance(obj, list):
        for i, v in enumerate(obj):
            if isinstance(v, (dict, list)):
                yield from _walk_ints(v, keys, path + (i,))


def _get(obj, path):
    for p in path:
        obj = obj[p]
    return obj


def _set(obj, path, val):
    for p in path[:-1]:
        obj = obj[p]
    obj[path[-1]] = val


def shrink(mod, scn, oracle, budget_runs=250, budget_s=150, keep=None):
    """Greedy delta-debugging over the scenario; keeps a candidate iff the same oracle still fires (and `keep(candidate, violation)`
    holds: the violation stays in the same class - not listed as a known finding, or the same known finding)."""
    t0 = time.time()
    runs = [0]
    spec = getattr(mod, "SHRINK", {})
    list_keys = set(spec.get("lists", ["ops", "faults"]))
    zero_keys = set(spec.get("zero", ["delay"]))
    flat_keys = set(spec.get("flatten", []))

    def still(s):
        if runs[0] >= budget_runs or time.time() - t0 > budget_s:
            return False
        runs[0] += 1
        try:
            _arm()
            shim.reset_tracer()
            r = mod.run(copy.deepcopy(s))
        except Exception:
            return False
        finally:
            _disarm()
        return any(v["oracle"] == oracle and (keep is None or keep(s, v)) for v in r.get("violations", []))

    best = copy.deepcopy(scn)
    changed = True
    rounds = 0
    while changed and rounds < 6 and runs[0] < budget_runs and time.time() - t0 < budget_s:
        changed = False
        rounds += 1
        # property-specific simplifications first (drop ports, shrink config)
        for cand in (mod.simplify(best) if hasattr(mod, "simplify") else ()):
            if still(cand):
                best = cand
                changed = True
        for path in list(_walk_lists(best, list_keys)):
            try:
                lst = _get(best, path)
            except (KeyError, IndexError):
                continue
            n = len(lst)
            chunk = max(1, n // 2)
            while chunk >= 1 and len(lst) > 0:
                i = 0
                progressed = False
                while i < len(lst):
                    cand = copy.deepcopy(best)
                    cl = _get(cand, path)
                    del cl[i:i + chunk]
                    if still(cand):
                        best = cand
                        lst = _get(best, path)
                        changed = progressed = True
                    else:
                        i += chunk
                    if runs[0] >= budget_runs:
                        break
                if chunk == 1:
                    break
                chunk = max(1, chunk // 2)
        for path in list(_walk_lists(best, flat_keys)):
            lst = _get(best, path)
            if lst:
                cand = copy.deepcopy(best)
                _set(cand, path, [])
                if still(cand):
                    best = cand
                    changed = True
        ints = list(_walk_ints(best, zero_keys))
        if ints:
            cand = copy.deepcopy(best)
            for path in ints:
                _set(cand, path, 0)
            if still(cand):
                best = cand
                changed = True
            else:
                for path in ints[:60]:
                    cand = copy.deepcopy(best)
                    _set(cand, path, 0)
                    if still(cand):
                        best = cand
                        changed = True
    return best, runs[0]


# ---- known findings ---------------------------------------------------------------------------------

def load_known(prop):
    try:
        with open(KNOWN) as f:
            k = json.load(f)
    except FileNotFoundError:
        return {}
    return {e["id"]: e for e in k.get("open", []) if e["property"] == prop}


def classify(mod, scn, viol, known):
    if not known or not hasattr(mod, "classify"):
        return None
    try:
        fid = mod.classify(scn, viol)
    except Exception:
        return None
    return fid if fid in known else None


# ---- main ---------------------------------------------------------------------------------------------

def write_evidence(mod, tier, seed, t0, results, violations, extra=None):
    os.makedirs(EVIDENCE_DIR, exist_ok=True)
    stats = {}
    states = set()
    cycles = sim_ps = 0
    digests = set()
    wall_runs = 0.0
    for r in results:
        for k, v in r.get("stats", {}).items():
            stats[k] = stats.get(k, 0) + v
        states.update(r.get("states", []))
        cycles += r.get("cycles", 0)
        sim_ps += r.get("sim_ps", 0)
        wall_runs += r.get("wall", 0)
        if r.get("nontrivial") and r.get("digest"):
            digests.add(r["digest"])
    wall = time.time() - t0
    samples = []
    for r in results[:3]:
        if "scenario" in r:
            samples.append({"seed": r["seed"], "summary": r.get("summary", {}), "digest": r.get("digest"),
                            "scenario_excerpt": _excerpt(r["scenario"])})
    zero = sorted(k for k, v in stats.items() if v == 0)
    nevals = len(results)
    ndist = len(digests)
    if results and all("evaluations" in r for r in results):
        # checks whose unit of evaluation is finer than a run (fault enumeration): counts measured by the run itself
        nevals = sum(r["evaluations"] for r in results)
        ndist = sum(r.get("distinct_keys", 0) for r in results)
    cov = {
        "evaluations": nevals,
        "distinct_nontrivial": ndist,
        "runs": len(results),
        "rule": mod.RULE,
        "samples": samples or [{"note": "no sample captured"}],
        "simulated_cycles": cycles,
        "simulated_time_ps": sim_ps,
        "runs_per_hour": int(len(results) / wall * 3600) if wall > 0 else 0,
        "cycles_per_hour": int(cycles / wall * 3600) if wall > 0 else 0,
        "abstract_states_reached": len(states),
        "fault_and_probe_counters": dict(sorted(stats.items())),
        "probes_stuck_at_zero": zero,
        "real_components": getattr(mod, "REAL", []),
        "stub_components": getattr(mod, "STUB", []),
        "workers": int(os.environ.get("VSIM_JOBS", "0")) or os.cpu_count(),
        "repo": REPO,
    }
    if extra:
        cov.update(extra)
    ev = {
        "property_id": mod.ID,
        "tier": tier,
        "seed": seed,
        "level": mod.LEVEL,
        "coverage": cov,
        "assumptions": getattr(mod, "ASSUMPTIONS", []),
        "wall_s": round(wall, 2),
        "violations": violations,
    }
    path = os.path.join(EVIDENCE_DIR, "%s.json" % mod.ID)
    tmp = path + ".tmp"
    with open(tmp, "w") as f:
        json.dump(ev, f, indent=1, sort_keys=True, default=str)
    os.replace(tmp, path)
    return path


def _excerpt(scn, maxlen=6):
    """Scenario with long lists truncated (for evidence samples)."""
    if isinstance(scn, dict):
        return {k: _excerpt(v, maxlen) for k, v in scn.items()}
    if isinstance(scn, list):
        if len(scn) > maxlen:
            return [_excerpt(v, maxlen) for v in scn[:maxlen]] + ["... (%d more)" % (len(scn) - maxlen)]
        return [_excerpt(v, maxlen) for v in scn]
    return scn


def replay_file(mod, path):
    with open(path) as f:
        rep = json.load(f)
    scn = rep["scenario"]
    res = execute(mod, copy.deepcopy(scn))
    viols = res.get("violations", [])
    print("replay %s: %d violation(s), digest %s (recorded %s)" %
          (path, len(viols), res.get("digest"), rep.get("digest")))
    for v in viols:
        print("  oracle=%s t=%s %s" % (v["oracle"], v.get("t"), v["msg"]))
    want = rep.get("violation", {}).get("oracle")
    same = any(v["oracle"] == want for v in viols)
    if viols:
        if rep.get("digest") and res.get("digest") != rep.get("digest"):
            print("NOTE: event-log digest differs from the recorded one (code under test changed?)")
        print("VIOLATION property=%s replay=%s" % (mod.ID, path))
        return 1
    print("no violation on replay%s" % ("" if want is None else " (recorded oracle: %s)" % want))
    return 0


def main(argv=None):
    ap = argparse.ArgumentParser()
    ap.add_argument("prop")
    ap.add_argument("--tier", default=os.environ.get("VERIF_TIER", "quick"))
    ap.add_argument("--seed", type=int, default=int(os.environ.get("VERIF_SEED", "0")))
    ap.add_argument("--runs", type=int, default=None)
    ap.add_argument("--start", type=int, default=0)
    ap.add_argument("--jobs", type=int, default=int(os.environ.get("VSIM_JOBS", "0")) or (os.cpu_count() or 4))
    ap.add_argument("--replay", default=None)
    ap.add_argument("--no-shrink", action="store_true")
    ap.add_argument("--no-evidence", action="store_true")
    ap.add_argument("--digests", action="store_true", help="print index:digest per run (determinism self-test)")
    a = ap.parse_args(argv)
    from . import check_repo_import
    check_repo_import()
    mod = load_prop(a.prop)
    if a.replay:
        return replay_file(mod, a.replay)
    tier = a.tier if a.tier in ("quick", "thorough") else "quick"
    nruns = a.runs if a.runs is not None else mod.TIERS[tier]["runs"]
    t0 = time.time()
    print("property %s tier=%s VERIF_SEED=%d runs=%d jobs=%d repo=%s" % (mod.ID, tier, a.seed, nruns, a.jobs, REPO))
    sys.stdout.flush()
    results = []
    harness_errors = []
    ctx = multiprocessing.get_context("fork")
    faulthandler.enable()
    try:
        with cf.ProcessPoolExecutor(max_workers=a.jobs, mp_context=ctx) as ex:
            futs = [ex.submit(_task, a.prop, a.seed, i, tier) for i in range(a.start, a.start + nruns)]
            for fu in futs:
                try:
                    r = fu.result(timeout=RUN_TIMEOUT_S * 40 + 600)
                except Exception as e:   # worker death, pool broken, timeout
                    harness_errors.append("worker failure: %r" % (e,))
                    break
                if "harness_error" in r:
                    harness_errors.append("run %d seed %d: %s" % (r["index"], r["seed"], r["harness_error"]))
                else:
                    results.append(r)
    except Exception as e:
        harness_errors.append("pool failure: %r" % (e,))
    if harness_errors:
        # harness errors are reported apart from violations; the runs that did complete are still judged, so a violation found
        # next to a run that timed out is not lost (exit 1 with VIOLATION wins over exit 2)
        for h in harness_errors[:5]:
            print("HARNESS-ERROR property=%s %s" % (mod.ID, h))
        if not results:
            return 2
    results.sort(key=lambda r: r["index"])
    if a.digests:
        for r in results:
            print("DIGEST %d %s" % (r["index"], r["digest"]))
    known = load_known(mod.ID)
    bad = [r for r in results if r["violations"]]
    known_hits = {}
    real = []
    for r in bad:
        unk = []
        for v in r["violations"]:
            fid = classify(mod, r["scenario"], v, known)
            if fid is None:
                unk.append(v)
            else:
                known_hits.setdefault(fid, []).append(r["seed"])
        if unk:
            real.append((r, unk))
    for fid, seeds in sorted(known_hits.items()):
        print("KNOWN-FINDING: property=%s %s — %s (hit by %d run(s), e.g. seed %d)" %
              (mod.ID, fid, known[fid].get("what", ""), len(seeds), seeds[0]))
    for fid in sorted(set(known) - set(known_hits)):
        # dedicated witness scenario, if the property module provides one
        if hasattr(mod, "witness"):
            w = mod.witness(fid)
            if w is not None:
                res = execute(mod, w)
                if any(classify(mod, w, v, known) == fid for v in res.get("violations", [])):
                    print("KNOWN-FINDING: property=%s %s — %s (witness scenario)" % (mod.ID, fid, known[fid].get("what", "")))
    nviol = 0
    rc = 0
    if bad:
        cnt = {}
        for r in bad:
            for o in sorted(set(v["oracle"] for v in r["violations"])):
                cnt[o] = cnt.get(o, 0) + 1
        print("violating runs per oracle: %s" % ", ".join("%s=%d" % kv for kv in sorted(cnt.items())))
    if real:
        os.makedirs(REPLAY_DIR, exist_ok=True)
        seen_oracles = set()
        for r, unk in real:
            oracle = unk[0]["oracle"]
            if oracle in seen_oracles:
                continue
            seen_oracles.add(oracle)
            if len(seen_oracles) > 3:
                break
            scn = r["scenario"]
            nshr = 0
            if not a.no_shrink:
                scn, nshr = shrink(mod, scn, oracle, keep=lambda s_, v_: classify(mod, s_, v_, known) is None)
            res = execute(mod, copy.deepcopy(scn))
            vv = [v for v in res.get("violations", []) if v["oracle"] == oracle and classify(mod, scn, v, known) is None] or unk
            path = os.path.join(REPLAY_DIR, "%s-%d.json" % (mod.ID, r["seed"]))
            with open(path, "w") as f:
                json.dump({"property": mod.ID, "seed": r["seed"], "verif_seed": a.seed, "index": r["index"],
                           "violation": vv[0], "all_violations": res.get("violations", []),
                           "digest": res.get("digest"), "shrink_runs": nshr,
                           "replay_cmd": "cd /verif && ./check %s --replay %s" % (mod.ID, path),
                           "scenario": scn}, f, indent=1, sort_keys=True, default=str)
            print("violation: oracle=%s t=%s %s" % (vv[0]["oracle"], vv[0].get("t"), vv[0]["msg"]))
            print("VIOLATION property=%s replay=%s" % (mod.ID, path))
            nviol += 1
        rc = 1
    if harness_errors and not rc:
        print("%s: %d run(s) ended in a harness error — no verdict" % (mod.ID, len(harness_errors)))
        return 2
    if not a.no_evidence:
        extra = {"known_finding_hits": {k: len(v) for k, v in known_hits.items()}}
        p = write_evidence(mod, tier, a.seed, t0, results, nviol, extra)
        print("evidence: %s" % p)
    tot_cyc = sum(r["cycles"] for r in results)
    print("%s: %d runs, %d cycles, %.1fs wall, %d violating run(s)%s" %
          (mod.ID, len(results), tot_cyc, time.time() - t0, len(real), "" if rc else " — property held on everything explored"))
    return rc


if __name__ == "__main__":
    sys.exit(main())
