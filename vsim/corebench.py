"""CoreBench: the complete LiteDRAMCore (dfii + controller + crossbar) against DramRef (DESIGN.md §4.4).

Scenario part `core`:
  module:  {"kind": "lib", "cls": <name in litedram.modules>, "speedgrade": ..}  |
           {"kind": "syn", "memtype", "nbanks", "nrows", "ncols", "tech": {...}, "speed": {...}}
  clk_period_ps, rate ("1:1"|"1:2"|"1:4"), databits
  phy: {"from": "model"} | {nphases, rdphase, wrphase, cl, cwl, read_latency, write_latency}
  nranks
  ctrl: ControllerSettings keyword arguments
  ports: [ {"mode": "both", "data_width": None|int, "cd": "sys"|"usr<i>", "reverse": bool} ]
"""
import math

from migen import *

from litedram import modules as lmodules
from litedram.common import PhySettings, burst_lengths
from litedram.core import LiteDRAMCore
from litedram.core.controller import ControllerSettings
from litedram.modules import SDRAMModule, _TechnologyTimings, _SpeedgradeTimings
from litedram.phy import dfi as ldfi
from litedram.phy.model import get_sdram_phy_settings, sdram_module_nphases

from .engine import Sim
from .agents import NativeMaster, RefMem, Violations, word_of, StreamMonitor
from .dramref import DramRef, AddrMap, Datasheet, log2i


def _tup(v):
    if v is None:
        return None
    if isinstance(v, (list, tuple)):
        return (v[0], v[1])
    return v


def make_module(m, clk_freq, rate):
    if m["kind"] == "lib":
        cls = getattr(lmodules, m["cls"])
        kw = {}
        if m.get("speedgrade") is not None:
            kw["speedgrade"] = m["speedgrade"]
        if m.get("fine_refresh_mode") is not None:
            kw["fine_refresh_mode"] = m["fine_refresh_mode"]
        return cls(clk_freq, rate, **kw)
    tech, speed = m["tech"], m["speed"]
    trefi, trfc = _tup(tech["tREFI"]), _tup(speed["tRFC"])
    if m["memtype"] == "DDR4":     # DDR4 entries are keyed by fine-refresh mode
        trefi = {"1x": trefi, "2x": trefi / 2, "4x": trefi / 4}
        trfc = {"1x": trfc, "2x": trfc, "4x": trfc}

    class Syn(SDRAMModule):
        memtype = m["memtype"]
        nbanks = m["nbanks"]
        nrows = m["nrows"]
        ncols = m["ncols"]
        technology_timings = _TechnologyTimings(tREFI=trefi, tWTR=_tup(tech["tWTR"]), tCCD=_tup(tech["tCCD"]),
                                                tRRD=_tup(tech["tRRD"]), tZQCS=_tup(tech.get("tZQCS")))
        speedgrade_timings = {"default": _SpeedgradeTimings(tRP=_tup(speed["tRP"]), tRCD=_tup(speed["tRCD"]),
                                                            tWR=_tup(speed["tWR"]), tRFC=trfc,
                                                            tFAW=_tup(speed["tFAW"]), tRAS=_tup(speed["tRAS"]))}
    return Syn(clk_freq, rate)


class FakePHY(Module):
    def __init__(self, settings, addressbits, bankbits):
        self.settings = settings
        self.dfi = ldfi.Interface(addressbits, bankbits, settings.nranks, settings.dfi_databits, settings.nphases)


def make_phy_settings(core, module, clk_freq):
    memtype = module.memtype
    databits = core.get("databits", 16)
    ph = core.get("phy", {"from": "model"})
    if ph.get("from") == "model":
        s = get_sdram_phy_settings(memtype, databits, clk_freq)
        s.nranks = core.get("nranks", 1)
        return s
    nphases = ph["nphases"]
    bl = nphases if memtype == "SDR" else burst_lengths[memtype]
    dfi_databits = databits * bl // nphases
    return PhySettings(phytype="FakePHY", memtype=memtype, databits=databits, dfi_databits=dfi_databits,
                       nphases=nphases, rdphase=ph["rdphase"], wrphase=ph["wrphase"], cl=ph["cl"], cwl=ph.get("cwl"),
                       read_latency=ph["read_latency"], write_latency=ph["write_latency"], nranks=core.get("nranks", 1))


class CoreBench:
    def __init__(self, core, clocks=None, track_multireg=False, attach=None):
        self.core_cfg = core
        period = core["clk_period_ps"]
        clk_freq = 1e12 / period
        self.module = module = make_module(core["module"], clk_freq, core["rate"])
        self.phy_settings = ps = make_phy_settings(core, module, clk_freq)
        geom = module.geom_settings
        self.geom = geom
        self.timing = module.timing_settings
        pm = core.get("phy_model")
        if pm is not None:
            # the bundled simulation PHY/DRAM model is the PHY (C19 controller-driven traces); tiny geometries keep A10 on the bus
            from litedram.phy.model import SDRAMPHYModel
            geom.addressbits = max(11, geom.addressbits, geom.colbits + (1 if geom.colbits > 10 else 0))
            phy = SDRAMPHYModel(module, settings=ps, we_granularity=pm.get("we_granularity", 8), init=list(pm.get("init") or []),
                                address_mapping=pm.get("mapping", "ROW_BANK_COL"))
        else:
            phy = FakePHY(ps, geom.addressbits, geom.bankbits)
        ctrl = dict(core.get("ctrl", {}))
        self.ctrl = ctrl
        dut = LiteDRAMCore(phy, geom, module.timing_settings, clk_freq, controller_settings=ControllerSettings(**ctrl))
        dut.submodules.phy = phy
        self.dut = dut
        self.ports = []
        for i, p in enumerate(core["ports"]):
            port = dut.crossbar.get_port(mode=p.get("mode", "both"), data_width=p.get("data_width"),
                                         clock_domain=p.get("cd", "sys"), reverse=p.get("reverse", False))
            self.ports.append(port)
        self.xports = dut.crossbar.masters
        if attach is not None:
            # a frontend (bridge, DMA, FIFO, BIST, ...) built on the core's ports becomes part of the same design
            self.attached = attach(dut, self.ports)
        clks = {"sys": {"period": period, "phase": 0}}
        if clocks:
            clks.update(clocks)
        self.sim = Sim(dut, clks, track_multireg=track_multireg)
        c = dut.controller
        # burst alignment from the JEDEC burst lengths (own table), not from the design under test: one port word is one burst of
        # nphases (SDR) or BL (DDRx) columns
        bl = ps.nphases if ps.memtype == "SDR" else {"DDR": 4, "LPDDR": 4, "DDR2": 4, "DDR3": 8, "DDR4": 8}[ps.memtype]
        self.align = log2i(bl)
        self.dut_align = c.interface.address_align
        self.nphases = ps.nphases
        self.data_bytes = c.interface.data_width // 8
        self.rankbits = log2i(ps.nranks)
        self.amap = AddrMap(geom.colbits, geom.rowbits, geom.bankbits, self.rankbits, self.align, self.data_bytes,
                            ctrl.get("bank_byte_alignment", 0))
        self.period = period

    def dram_cfg(self):
        ps, g = self.phy_settings, self.geom
        return {"nphases": ps.nphases, "nranks": ps.nranks, "bankbits": g.bankbits, "rowbits": g.rowbits,
                "colbits": g.colbits, "align": self.align, "memtype": ps.memtype, "read_latency": ps.read_latency,
                "write_latency": ps.write_latency, "rdphase": ps.rdphase, "wrphase": ps.wrphase, "cl": ps.cl,
                "cwl": ps.cwl, "period_ps": self.period, "dfi_databits": ps.dfi_databits}

    def fsm_state_indices(self):
        """Indices of FSM state registers for the abstract-state coverage measure."""
        sim = self.sim
        c = self.dut.controller
        out = {"mux": sim.index(c.multiplexer.fsm.state), "ref": sim.index(c.refresher.fsm.state), "bm": []}
        from litedram.core.bankmachine import BankMachine
        for n, m in c._submodules:
            if isinstance(m, BankMachine):
                out["bm"].append(sim.index(m.fsm.state))
        return out


from .props.c07 import View  # noqa: E402

class CorePortView:
    """What the frontend checks need from "the memory behind a native port" when that memory is the real core + DramRef:
    the interface of NativeMemSlave that the oracles use (ncmd, nwdone, log, mem, read_word, idle)."""

    def __init__(self, sim, tb, dram, port, name="core", on_cmd=None):
        self.sim, self.tb, self.dram = sim, tb, dram
        ix = sim.index
        self.i_cv, self.i_cr = ix(port.cmd.valid), ix(port.cmd.ready)
        self.i_cwe, self.i_ca = ix(port.cmd.we), ix(port.cmd.addr)
        self.i_wr, self.i_wd, self.i_wwe = ix(port.wdata.ready), ix(port.wdata.data), ix(port.wdata.we)
        self.i_rv, self.i_rd = ix(port.rdata.valid), ix(port.rdata.data)
        self.nbytes = port.data_width // 8
        self.name = name
        self.on_cmd = on_cmd
        self.ncmd = self.nwdone = 0
        self.wq, self.rq = [], []
        self.log = []
        self.amask = (1 << tb.amap.aw) - 1
        sim.add_agent("sys", self)

    def __call__(self, sim):
        S = sim.S
        if S[self.i_cv] and S[self.i_cr]:
            we, a = S[self.i_cwe], S[self.i_ca] & self.amask
            self.ncmd += 1
            (self.wq if we else self.rq).append(a)
            if self.on_cmd:
                self.on_cmd(we, a)
            sim.ev(self.name, "cmd", we, a)
        if S[self.i_wr] and self.wq:
            a = self.wq.pop(0)
            self.nwdone += 1
            self.log.append(("w", a, S[self.i_wd], S[self.i_wwe]))
        if S[self.i_rv] and self.rq:
            a = self.rq.pop(0)
            self.log.append(("r", a, S[self.i_rd], 0))

    def idle(self):
        return not self.wq and not self.rq and not self.dram.busy()

    def read_word(self, a):
        return self.dram.read_key(self.tb.amap.fwd_c(a & self.amask))

    @property
    def mem(self):
        return {self.tb.amap.inv_c(*k): v for k, v in self.dram.store.items() if k[2] >= 0}


def core_host(scn_core, viol_factory, attach, clocks=None):
    """Build the real core with a frontend attached to its ports and DramRef as the DRAM.
    Returns (tb, sim, viol, dram)."""
    tb = CoreBench(scn_core, clocks=clocks, attach=attach)
    sim = tb.sim
    viol = viol_factory(sim)
    ds = Datasheet(tb.module)
    dram = DramRef(sim, tb.dut.phy.dfi, tb.dram_cfg(), viol, amap=tb.amap, datasheet=ds)
    # requests as accepted at the crossbar, linked to the column commands on the DFI bus (C02/C06 oracles stay armed)
    amap = tb.amap

    def xmon(i, xp):
        def on(x):
            rank, bank, row, col = amap.fwd(x["addr"])
            dram.push_request(rank, bank, x["we"], row, col, "xbar master %d addr 0x%x" % (i, x["addr"]))
        return StreamMonitor(sim, xp.cmd, ["we", "addr"], on)
    for i, xp in enumerate(tb.xports):
        sim.add_agent("sys", xmon(i, xp))
    return tb, sim, viol, dram


PROP_OF = {"c01": "C01", "c02": "C02", "c03": "C03", "c04": "C04", "c05": "C05", "c06": "C06"}


def service_latency(tb, postponing):
    """Refresh service latency bound L (cycles) as a function of the configuration only (DESIGN §5 C04)."""
    t = tb.timing
    ps = tb.phy_settings
    nb = (1 << tb.geom.bankbits) * ps.nranks
    wl_sys = math.ceil((ps.cwl or 0) / ps.nphases)
    twtp = wl_sys + t.tWR + (t.tCCD or 0)
    drain = twtp + (t.tRAS or 0) + t.tRP + t.tRCD + (t.tFAW or 0) + nb * (t.tRRD or 1) + ps.read_latency + ps.write_latency
    return 2 * (drain + postponing * (t.tRP + t.tRFC)) + 64


def run_core(scn, want=("c01", "c02", "c03", "c04", "c05", "c06")):
    core = scn["core"]
    tb = CoreBench(core, clocks=scn.get("clocks"), track_multireg=bool(scn.get("faults", {}).get("meta_window")))
    sim = tb.sim
    viol = Violations(sim, cap=12)
    ds = Datasheet(tb.module)
    dram = DramRef(sim, tb.dut.phy.dfi, tb.dram_cfg(), viol, amap=tb.amap, datasheet=ds)
    if scn.get("faults", {}).get("meta_window"):
        meta = sim.enable_metastability(scn["faults"]["meta_window"], scn["faults"].get("meta", [1]))
    else:
        meta = None
    ref = RefMem()
    nb = tb.data_bytes
    amap = tb.amap
    masters = []
    expects = []
    stats = {"cmds": 0, "reads": 0, "writes": 0, "partial_sel": 0, "cross_port_same_addr": 0,
             "refreshes": 0, "zqcs": 0, "auto_precharges": 0, "acts": 0, "explicit_pre": 0,
             "cmd_wait_cycles_worst": 0, "resp_wait_cycles_worst": 0}
    last_writer = {}
    cyc_box = [0]
    waits = {"cmd": 0, "resp": 0}
    B = scn.get("limits", {}).get("wait_bound")

    def mk(i, port, ops, pc):
        exp = []
        expects.append(exp)
        pend = []   # accept cycles of commands awaiting their response (in order, per kind)
        wpend = []
        nbu = port.data_width // 8
        native = (nbu == nb) and pc.get("cd", "sys") == "sys"
        view = View(port.data_width, nb * 8, pc.get("reverse", False))
        full = (1 << nbu) - 1

        def on_cmd(op):
            stats["cmds"] += 1
            a = op["addr"] & ((1 << port.address_width) - 1)
            sim.ev("cmd", i, op["id"], op["we"], a)
            mb = view.mem_bytes(a)
            if op["we"]:
                stats["writes"] += 1
                sel = op.get("sel", full)
                if sel != full:
                    stats["partial_sel"] += 1
                data = word_of(op["id"], nbu)
                rm = ref.m
                for b_, m_ in enumerate(mb):
                    if (sel >> b_) & 1:
                        rm[m_] = (data >> (8 * b_)) & 0xFF
                if native:
                    lw = last_writer.get(a)
                    if lw is not None and lw != i:
                        stats["cross_port_same_addr"] += 1
                    last_writer[a] = i
                wpend.append(cyc_box[0])
            else:
                stats["reads"] += 1
                if native:
                    lw = last_writer.get(a)
                    if lw is not None and lw != i:
                        stats["cross_port_same_addr"] += 1
                v = 0
                for b_, m_ in enumerate(mb):
                    v |= ref.byte(m_) << (8 * b_)
                exp.append((op["id"], a, v))
                pend.append(cyc_box[0])

        got = [0]

        def on_rdata(data):
            k = got[0]
            got[0] += 1
            sim.ev("rdata", i, data)
            if pend:
                w = cyc_box[0] - pend.pop(0)
                if w > waits["resp"]:
                    waits["resp"] = w
            if k >= len(exp):
                viol.add(pfx(pc) + ".spurious_rdata", "port %d: read data 0x%x returned with no read outstanding" % (i, data))
                return
            oid, a, v = exp[k]
            if data != v:
                viol.add(pfx(pc) + ".read_data", "port %d (%d-bit%s) read #%d (op %d, addr 0x%x) returned 0x%x, expected 0x%x"
                         % (i, port.data_width, "" if pc.get("cd", "sys") == "sys" else ", clock domain " + pc["cd"], k, oid, a, data, v))

        def on_wdata(op, data, sel, valid):
            if wpend:
                w = cyc_box[0] - wpend.pop(0)
                if w > waits["resp"]:
                    waits["resp"] = w

        cdc = pc.get("cd", "sys") != "sys"
        m = NativeMaster(sim, port, ops, name="m%d" % i, on_cmd=on_cmd, on_rdata=on_rdata, on_wdata=on_wdata,
                         loop=scn["ports"][i].get("loop", False), rready=scn["ports"][i].get("rready") if cdc else None,
                         max_reads=max(1, 16 // max(1, nbu // nb)) if cdc else None)
        m.got = got
        m.exp = exp
        m.pend, m.wpend = pend, wpend
        return m

    def pfx(pc):
        if pc.get("cd", "sys") != "sys":
            return "c08"
        if pc.get("data_width") not in (None, nb * 8):
            return "c07"
        return "c01"

    for i, (port, pc) in enumerate(zip(tb.ports, core["ports"])):
        ops = [dict(o) for o in scn["ports"][i]["ops"]]
        if port.data_width < nb * 8:
            for o in reversed(ops):     # up-converted port: the final command of a sequence carries last=1
                if "flush" not in o:
                    o["last"] = 1
                    break
        m = mk(i, port, ops, pc)
        masters.append(m)
        sim.add_agent(pc.get("cd", "sys"), m)

    # L0: requests as accepted at the crossbar, linked to the column commands on the DFI bus
    def xmon(i, xp):
        def on(x):
            a = x["addr"]
            rank, bank, row, col = amap.fwd(a)
            dram.push_request(rank, bank, x["we"], row, col, "xbar master %d addr 0x%x" % (i, a))
        return StreamMonitor(sim, xp.cmd, ["we", "addr"], on)
    for i, xp in enumerate(tb.xports):
        sim.add_agent("sys", xmon(i, xp))
    # write-data strobes at the crossbar that found no valid data on a clock-crossed port (the crossing delivered
    # the command before its data)
    blind = [0] * len(tb.xports)
    cdc_x = [(i, sim.index(xp.wdata.ready), sim.index(xp.wdata.valid)) for i, (xp, pc) in enumerate(zip(tb.xports, core["ports"]))
             if pc.get("cd", "sys") != "sys" and pc.get("mode", "both") != "read"]
    if cdc_x:
        # writes accepted by the crossbar from a crossed port whose data strobe has not happened yet ("in flight behind the crossing")
        xw_now = [0] * len(tb.xports)
        xw_max = [0] * len(tb.xports)
        cdc_c = {i: (sim.index(tb.xports[i].cmd.valid), sim.index(tb.xports[i].cmd.ready), sim.index(tb.xports[i].cmd.we)) for i, _, _ in cdc_x}

        def blindmon(sim):
            S_ = sim.S
            for i, ir, iv in cdc_x:
                cv, cr, cw = cdc_c[i]
                if S_[cv] and S_[cr] and S_[cw]:
                    xw_now[i] += 1
                    if xw_now[i] > xw_max[i]:
                        xw_max[i] = xw_now[i]
                if S_[ir]:
                    if not S_[iv]:
                        blind[i] += 1
                    if xw_now[i]:
                        xw_now[i] -= 1
        sim.add_agent("sys", blindmon)
        upc = [bool(pc.get("data_width")) and pc["data_width"] < nb * 8 for pc in core["ports"]]
        viol.extra = lambda: {"blind_strobes": list(blind), "upconverted": upc[0], "xbar_writes_in_flight_max": list(xw_max)}

    # monitors: cmd wait time (first offer -> accept), abstract states
    fs = tb.fsm_state_indices()
    states = set()
    offer = [None] * len(masters)
    releases = [0] * len(masters)
    curop = [None] * len(masters)
    tgt = [0] * len(masters)
    worst = {"cmd": None}
    bank_idle = None
    if B is not None:
        itf = tb.dut.controller.interface
        bank_idle = []
        from migen.genlib import roundrobin
        arbs = [m_ for _, m_ in tb.dut.crossbar._submodules if isinstance(m_, roundrobin.RoundRobin)]
        for n in range(itf.nbanks):
            bk = getattr(itf, "bank%d" % n)
            # (bank valid, bank lock, the bank arbiter's request vector: bit i = master i is requesting this bank and is not held
            # back by its own outstanding commands in another bank)
            bank_idle.append((sim.index(bk.valid), sim.index(bk.lock), sim.index(arbs[n].request) if len(arbs) == itf.nbanks else None))
    S = sim.S
    # fairness of the multiplexer's column-command chooser (diagnosis for C05): for every bank machine with a column command of one
    # direction continuously pending, how many commands of the same direction were accepted from other bank machines meanwhile.
    # A round robin over n bank machines never lets this exceed n - 1.
    bm_sig = None
    overtaken = {"max": 0, "bank": None, "dir": None}
    if B is not None:
        from litedram.core.bankmachine import BankMachine
        bms_ = [m_ for _, m_ in tb.dut.controller._submodules if isinstance(m_, BankMachine)]
        bufs_ = [[m_ for _, m_ in b_._submodules if type(m_).__name__ == "Buffer"][0] for b_ in bms_]     # the 1-deep request buffer
        bm_sig = [(sim.index(b_.cmd.valid), sim.index(b_.cmd.ready), sim.index(b_.cmd.is_read), sim.index(b_.cmd.is_write),
                   sim.index(q_.source.valid), sim.index(q_.source.we), sim.index(q_.source.ready))
                  for b_, q_ in zip(bms_, bufs_)]
        bm_pend = [None] * len(bm_sig)       # direction pending ("r"/"w") or None
        bm_over = [0] * len(bm_sig)
    postponing = tb.ctrl.get("refresh_postponing", 1)
    L = service_latency(tb, postponing)
    t_ = tb.timing
    ps_ = tb.phy_settings
    wl_sys = math.ceil((ps_.cwl or 0) / ps_.nphases)
    tcmd = (t_.tRP + t_.tRCD + (t_.tRAS or 0) + (t_.tRC or 0) + (t_.tFAW or 0) + ps_.read_latency + t_.tWTR + wl_sys + (t_.tCCD or 0)
            + t_.tWR + ps_.write_latency)
    Bauto = 4 * (len(tb.ports) * (tb.ctrl.get("cmd_buffer_depth", 8) + 2) * tcmd + tb.ctrl.get("read_time", 32) + tb.ctrl.get("write_time", 16)
                 + postponing * (t_.tRP + t_.tRFC))
    if B == "auto":
        B = Bauto
    bound = B
    # progress watchdog: a run in which no master makes any progress for this many sys cycles while work is outstanding is a hang;
    # it only shortens runs that would otherwise spin to the cycle cap (several times the bounded-liveness bound of C05, plus the
    # longest deliberate master delay)
    stall_cap = scn.get("limits", {}).get("stall_cap", max(8000, 4 * Bauto))
    last_prog = None
    last_prog_cyc = 0
    if scn.get("limits", {}).get("run_for_bounds"):
        # bounded-liveness runs last run_for_bounds * B cycles so an unbounded wait is distinguishable from a long one
        cap_override = int(scn["limits"]["run_for_bounds"] * B) + 200
    else:
        cap_override = None
    if tb.dut_align != tb.align:
        viol.add("c06.address_width", "controller aligns port addresses to %d column bits; one %d-bit port word is a burst of %d columns "
                 "(%s, %d phases): addresses %s" % (tb.dut_align, tb.data_bytes * 8, 1 << tb.align, tb.phy_settings.memtype, tb.nphases,
                                                    "share a burst" if tb.dut_align < tb.align else "skip columns"))
    for i, port in enumerate(tb.ports):
        if port.data_width == tb.data_bytes * 8 and port.address_width != amap.aw:
            viol.add("c06.address_width", "port %d has %d address bits, the device has %d (rank+bank+row+column-burst) bits: the port is not onto the device"
                     % (i, port.address_width, amap.aw))
    cap = cap_override or scn.get("limits", {}).get("max_cycles", 20000)
    drain_budget = scn.get("limits", {}).get("drain", 3000)
    sample_every = 7
    cyc = 0
    quiet = None
    until0 = scn.get("limits", {}).get("until_port0", 0)
    while cyc < cap:
        # cmd wait measurement (pre-edge view of what masters drive)
        for i, m in enumerate(masters):
            if m.cv:
                if offer[i] is None or curop[i] is not m.cur:
                    curop[i] = m.cur
                    offer[i] = cyc
                    releases[i] = 0
                    a_ = m.cur["addr"] & ((1 << amap.aw) - 1)
                    rk_, bk_, _, _ = amap.fwd(a_)
                    tgt[i] = (rk_ << tb.geom.bankbits) | bk_
                else:
                    w_ = cyc - offer[i]
                    if w_ > waits["cmd"]:
                        waits["cmd"] = w_
                        worst["cmd"] = (i, tgt[i], releases[i], m.cur.get("id"))
                if bank_idle is not None:
                    vi, li, ri = bank_idle[tgt[i]]
                    # a cycle in which the arbiter could have rotated to this master
                    if not S[vi] and not S[li] and (ri is None or (S[ri] >> i) & 1):
                        releases[i] += 1
            else:
                offer[i] = None
        cyc_box[0] = cyc
        if bm_sig is not None:
            served = None
            for j_, (v_, r_, ir_, iw_, bv_, bw_, br_) in enumerate(bm_sig):
                # the request the bank machine is working on (it stays pending through the precharge / activate it may need, and
                # through refreshes), and the column command that finally serves it
                d_ = ("w" if S[bw_] else "r") if S[bv_] else None
                if d_ != bm_pend[j_]:
                    bm_pend[j_] = d_
                    bm_over[j_] = 0
                if S[v_] and S[r_] and (S[ir_] or S[iw_]):
                    served = (j_, "r" if S[ir_] else "w")
                    bm_over[j_] = 0
            if served is not None:
                for j_ in range(len(bm_sig)):
                    if j_ != served[0] and bm_pend[j_] == served[1]:
                        bm_over[j_] += 1
                        if bm_over[j_] > overtaken["max"]:
                            overtaken.update(max=bm_over[j_], bank=j_, dir=served[1])
        sim.step()
        cyc = sim.cycles["sys"]
        if cyc % sample_every == 0:
            states.add((S[fs["mux"]], S[fs["ref"]], tuple(sorted(S[j] for j in fs["bm"]))))
        if bound is not None:
            if waits["cmd"] > bound or waits["resp"] > bound:
                break
            for i_, m in enumerate(masters):
                if (m.pend and cyc - m.pend[0] > bound) or (m.wpend and cyc - m.wpend[0] > bound):
                    waits["resp"] = max(waits["resp"], bound + 1)
                    worst["resp"] = (i_, "read" if (m.pend and cyc - m.pend[0] > bound) else "write", len(m.pend), len(m.wpend))
        if cyc % 64 == 0:
            prog = tuple((m.ncmd, len(m.wq), m.reads_out, m.got[0]) for m in masters)
            if prog != last_prog:
                last_prog = prog
                last_prog_cyc = cyc
            elif cyc - last_prog_cyc > stall_cap and not all(m.idle() for m in masters) and not cap_override:
                break
        # quiet = every master has nothing outstanding AND the controller owes nothing (a write accepted by the crossbar can still sit
        # in a bank machine behind a refresh long after its data was taken from the user port)
        if (all(m.idle() for m in masters) and not dram.busy()) or (until0 and masters[0].idle() and cyc >= until0):
            if quiet is None:
                quiet = cyc
            elif cyc - quiet > scn.get("limits", {}).get("tail", 40) and cyc >= scn.get("limits", {}).get("min_cycles", 0):
                break
        else:
            quiet = None
    if scn.get("limits", {}).get("drain_after"):
        # bounded liveness "once the load stops": every master stops offering new commands; whatever was accepted must be answered
        # within the wait bound.  (Per-command waits are measured in order, so a lost strobe only shifts a looping master's queue
        # by one and never shows as a long wait while traffic continues.)
        for m in masters:
            m.loop = False
            if m.cur is None:
                m.done_issuing = True
            else:
                m.ops = m.ops[:m.k + 1]
        dlen = int(scn["limits"]["drain_after"] * (Bauto if bound is None else max(bound, Bauto)))
        dcap = cyc + dlen
        while cyc < dcap and not all(m.idle() for m in masters):
            sim.step()
            cyc = sim.cycles["sys"]
        if not all(m.idle() for m in masters):
            det = ", ".join("port%d: offered %s, write data owed %d, reads owed %d" % (i, "yes" if m.cur is not None else "no", len(m.wq), m.reads_out)
                            for i, m in enumerate(masters) if not m.idle())
            viol.add("c05.lost_response", "traffic stopped, but after %d more cycles (%.1f x the wait bound) accepted commands are still unanswered: %s"
                     % (dlen, scn["limits"]["drain_after"], det), kind="drain")
    idle = all(m.idle() for m in masters)
    if bound is not None and waits["resp"] > bound:
        wr_ = worst.get("resp") or (-1, "?", 0, 0)
        viol.add("c05.wait_bound", "an accepted command waited %d cycles for its write-data strobe / read data (bound %d for this configuration): "
                 "port %d, oldest unanswered %s (%d reads, %d writes unanswered); while bank machine %s had a %s pending the multiplexer served "
                 "%d such commands of other bank machines (%d bank machines)"
                 % (waits["resp"], bound, wr_[0], wr_[1], wr_[2], wr_[3], overtaken["bank"], {"r": "read", "w": "write", None: "-"}[overtaken["dir"]],
                    overtaken["max"], len(bm_sig or [])), kind="resp", overtaken=overtaken["max"], nbm=len(bm_sig or []))
    elif bound is not None and waits["cmd"] > bound:
        wi, wb, wr, wid = worst["cmd"]
        viol.add("c05.wait_bound", "port %d command (op %s, bank machine %d) waited %d cycles for acceptance (bound %d for this configuration); "
                 "the bank's arbiter was released (bank neither valid nor locked) in %d of those cycles"
                 % (wi, wid, wb, waits["cmd"], bound, wr), kind="cmd", port=wi, bank=wb, releases=wr, nports=len(masters))
    elif not idle and not scn.get("limits", {}).get("hang_ok"):
        det = ", ".join("port%d: cmds %d/%d wq %d reads_out %d" % (i, m.ncmd, sum(1 for o in m.ops if "flush" not in o), len(m.wq), m.reads_out)
                        for i, m in enumerate(masters))
        viol.add("c05.hang", "core not drained after %d cycles (%s)" % (cyc, det))
        viol.add("c01.missing_response", "commands or responses outstanding at the cycle cap (%s)" % det)
    if idle:
        for i, m in enumerate(masters):
            if m.got[0] != len(m.exp):
                viol.add("c01.read_count", "port %d: %d reads accepted, %d words returned" % (i, len(m.exp), m.got[0]))
        # final image
        nbad = 0
        for key in sorted(dram.store):
            if key[2] < 0:
                continue
            a = amap.inv_c(*key)
            w = dram.store[key]
            exp = ref.read(a, nb)
            if w != exp:
                nbad += 1
                if nbad <= 2:
                    viol.add("c01.final_image", "DRAM word rank/bank/row/col %s (port addr 0x%x) holds 0x%x, reference memory says 0x%x" % (key, a, w, exp))
        for ba in sorted(ref.m):
            a = ba // nb
            kk = amap.fwd_c(a)
            if kk not in dram.store:
                viol.add("c01.final_image", "port address 0x%x was written but its DRAM location %s never was" % (a, kk))
                break
    # refresh-rate oracle (C04)
    t = tb.timing
    if tb.ctrl.get("with_refresh", True) and any(w.startswith("c04") for w in want):
        trefi_ps = ds.get("tREFI")[1] * 1000.0
        for k, rc in enumerate(dram.refs):
            limit_ps = (k + 1 + postponing) * trefi_ps + L * tb.period
            if rc * tb.period > limit_ps:
                viol.add("c04.refresh_late", "refresh #%d issued at %.0f ns > (%d+%d)*tREFI(%.1f ns) + L(%d cycles)"
                         % (k + 1, rc * tb.period / 1000.0, k + 1, postponing, trefi_ps / 1000.0, L))
                break
        # steady-state rate: when the refresher visibly runs as a free-running periodic process (>= 16 consecutive refresh bursts
        # of equal size at exactly equal spacing - what happens whenever traffic does not disturb it), that spacing is its period,
        # and a period above the datasheet interval makes refresh #k later than any (k + postponing)*tREFI + L for large enough k
        bursts = []
        for rc in dram.refs:
            if bursts and rc - bursts[-1][0] < t.tREFI // 2:
                bursts[-1][1] += 1
            else:
                bursts.append([rc, 1])
        run_len, j0 = 0, 0
        for j in range(1, len(bursts)):
            if (j >= 2 and bursts[j][0] - bursts[j - 1][0] == bursts[j - 1][0] - bursts[j - 2][0]
                    and bursts[j][1] == bursts[j - 1][1] == bursts[j - 2][1]):
                run_len += 1
            else:
                run_len, j0 = 0, j
            if run_len >= 16:
                T, q = bursts[j][0] - bursts[j - 1][0], bursts[j][1]
                if T * tb.period > q * trefi_ps * (1 + 1e-9):
                    viol.add("c04.refresh_rate", "steady refresh period: %d refresh(es) every %d cycles = one per %.3f ns > datasheet tREFI %.3f ns "
                             "(refresh bursts %d..%d equally spaced)" % (q, T, T * tb.period / 1000.0 / q, trefi_ps / 1000.0, j0, j))
                break
        # at the end of the run: refreshes owed
        end_ps = cyc * tb.period
        due = int((end_ps - L * tb.period) // trefi_ps) - postponing
        if len(dram.refs) < due:
            viol.add("c04.refresh_starved", "%d refreshes issued in %.0f ns, at least %d due (tREFI %.1f ns, postponing %d, L %d cycles)"
                     % (len(dram.refs), end_ps / 1000.0, due, trefi_ps / 1000.0, postponing, L))
        zf = tb.ctrl.get("refresh_zqcs_freq", 1e0)
        if t.tZQCS is not None and zf:
            # calibration is executed together with a refresh burst: each recurrence may slip by one burst period
            zper_cyc = int((1e12 / tb.period) / zf)
            gap_bound = zper_cyc + (postponing + 1) * t.tREFI + L
            prev = 0
            for k, zc in enumerate(dram.zqcs + [cyc]):
                if zc - prev > gap_bound:
                    what = "no ZQCS" if k == len(dram.zqcs) else "ZQCS #%d" % (k + 1)
                    viol.add("c04.zqcs_missing", "%s between cycle %d and cycle %d: gap %d cycles > period %d + (postponing+1)*tREFI + L = %d"
                             % (what, prev, zc, zc - prev, zper_cyc, gap_bound))
                    break
                prev = zc
    stats["refreshes"] = len(dram.refs)
    stats["zqcs"] = len(dram.zqcs)
    stats["auto_precharges"] = dram.nauto
    stats["acts"] = dram.ncmd["ACT"]
    stats["explicit_pre"] = dram.ncmd["PRE"]
    stats["cmd_wait_cycles_worst"] = waits["cmd"]          # summed over the runs of a batch in the evidence file
    stats["resp_wait_cycles_worst"] = waits["resp"]
    vs = [v for v in viol.v if v["oracle"].startswith(tuple(want))]
    other = [v for v in viol.v if not v["oracle"].startswith(tuple(want))]
    return {"violations": vs, "other_violations": other, "stats": stats, "cycles": cyc, "sim_ps": sim.now,
            "digest": sim.digest(), "states": [repr(s) for s in list(states)[:400]] + ["g:" + repr(g) for g in list(dram.grams)[:400]],
            "nontrivial": stats["cmds"] >= 2,
            "waits": dict(waits), "min_slack": dict(dram.min_slack), "L": L, "B": bound,
            "summary": {"memtype": tb.phy_settings.memtype, "nphases": tb.nphases, "ports": len(masters),
                        "cycles": cyc, "cmds": stats["cmds"], "refs": len(dram.refs),
                        "timing": {k: getattr(t, k) for k in ("tRP", "tRCD", "tWR", "tWTR", "tREFI", "tRFC", "tFAW", "tCCD", "tRRD", "tRC", "tRAS", "tZQCS")}}}
