"""Seeded generators for whole-core scenarios (swarm style: each run first draws which knobs are active)."""
import math

from .dramref import AddrMap, log2i

BURST = {"SDR": None, "DDR": 4, "LPDDR": 4, "DDR2": 4, "DDR3": 8, "DDR4": 8}
MODEL_NPHASES = {"SDR": 1, "DDR": 2, "LPDDR": 2, "DDR2": 2, "DDR3": 4, "DDR4": 4}
RATE = {1: "1:1", 2: "1:2", 4: "1:4"}

LIB = {
    "SDR": ["MT48LC16M16", "MT48LC4M16", "IS42S16160", "AS4C16M16", "EM636165", "M12L64322A", "W9825G6KH6", "IS42S32800J6",
            "AS4C32M16", "AS4C32M8", "AS4C4M16", "EM638165", "EM638325", "HY57V641620FTP", "IS42S16320", "IS42VM32160G",
            "M12L16161A", "MT48LC32M8", "NDS36PT5", "W9812G6JB", "W9864G6JT", "W989D6DBGX6"],
    "DDR": ["MT46V32M16"],
    "LPDDR": ["MT46H32M16", "MT46H64M16", "MT46H128M16", "MT46H32M32"],
    "DDR2": ["MT47H64M16", "MT47H32M16", "MT47H128M8", "P3R1GE4JGF", "K4T1G164QGBCE7"],
    "DDR3": ["MT41K128M16", "MT41J128M16", "MT41K64M16", "MT41K256M16", "K4B1G0446F", "K4B2G1646F", "AS4C128M16",
             "IS43TR16128B", "MT8JTF12864", "MT8KTF51264", "MT18KSF1G72HZ", "AS4C256M16D3A", "AS4C256M16D3C", "H5TC4G63CFR",
             "H5TQ4G63CFR", "H5TQ4G63EFR", "IMD128M16R39CG8GNF", "IS43TR16256A", "IS43TR16512B", "MT16KTF1G64HZ",
             "MT41J256M16", "MT41J256M8", "MT41J512M16", "MT41K256M8", "MT41K512M16"],
    "DDR4": ["EDY4016A", "MT40A1G8", "MT40A512M8", "MT40A256M16", "MT40A512M16", "KVR21SE15S84", "MTA4ATF51264HZ",
             "MT40A2G16", "MT40A2G8", "MTA18ASF2G72PZ", "MTA36ASF4G72PZ", "M393A2K40DB3", "M393A4K40DB3",
             "HMA82GR7DJR4N", "HMA84GR7DJR4N"],
}
LIB_SPEEDGRADES = {
    "K4T1G164QGBCE7": ["667", "800", "1066"], "AS4C256M16D3C": ["1600", "1866", "2133"],
    "H5TQ4G63CFR": ["1066", "1333", "1600", "1866"], "H5TQ4G63EFR": ["1066", "1333", "1600", "1866"],
    "IS43TR16512B": ["800", "1066", "1333", "1600"], "K4B1G0446F": ["800", "1066", "1333", "1600"],
    "K4B2G1646F": ["800", "1066", "1333", "1600"], "MT16KTF1G64HZ": ["800", "1066", "1333", "1600", "1866"],
    "MT18KSF1G72HZ": ["1066", "1333", "1600"], "MT41J128M16": ["800", "1066", "1333", "1600"],
    "MT41J256M16": ["800", "1066", "1333", "1600"], "MT41J256M8": ["800", "1066", "1333"],
    "MT41K128M16": ["800", "1066", "1333", "1600"], "MT41K256M16": ["800", "1066", "1333", "1600"],
    "MT41K64M16": ["800", "1066", "1333", "1600"], "MT8JTF12864": ["1066", "1333"],
    "MT8KTF51264": ["800", "1066", "1333", "1600", "1866"], "MT40A1G8": ["2400", "2666"], "MT40A2G16": ["2400", "2666"],
    "MT40A2G8": ["2400", "2666"], "MT40A512M8": ["2400", "2666"], "MTA18ASF2G72PZ": ["2400", "2666", "2933", "3200"],
    "MTA36ASF4G72PZ": ["2400", "2666", "2933", "3200"],
}
LIB_GEOM = {}   # filled lazily: name -> (nbanks, nrows, ncols)


def lib_geom(name):
    if name not in LIB_GEOM:
        from litedram import modules as lm
        c = getattr(lm, name)
        LIB_GEOM[name] = (c.nbanks, c.nrows, c.ncols)
    return LIB_GEOM[name]


def gen_syn_module(rng, memtype, P_ns, nphases, tight=False, big_ras=False, geom=None):
    """Synthetic datasheet entry: ns/ck pairs sized in controller cycles of period P_ns.

    tight: values constructed backwards from a cycle count so the conversion leaves (almost) no slack."""
    margin = P_ns * (1 - 1.0 / nphases)

    def ns_for(cycles):
        # largest ns that still converts to `cycles` (tight) or a random point inside the cycle (loose)
        hi = cycles * P_ns - margin
        lo = (cycles - 1) * P_ns - margin
        if hi <= 0:
            return max(0.0, hi)
        lo = max(lo, 0.0)
        if tight:
            return round(max(lo + 0.001, hi - rng.choice([0.001, 0.01, 0.05]) * P_ns), 4)
        return round(lo + (hi - lo) * rng.uniform(0.05, 0.95), 4)

    def pair(cyc_ck, cyc_ns):
        return [cyc_ck * nphases if cyc_ck else 0, ns_for(cyc_ns) if cyc_ns else None]

    tRP = rng.randint(1, 5)
    tRCD = rng.randint(1, 5)
    tWR = rng.randint(1, 6)
    tRAS = rng.randint(6, 16) if big_ras else rng.randint(2, 10)
    tRFC = rng.randint(4, 24)
    tREFI = rng.randint(102, 420)
    faw = rng.choice([None, None, rng.randint(4, 24)])
    rrd = rng.randint(1, 4)
    if faw is not None:
        faw = max(faw, rrd + 1)
    # data bursts cannot overlap: tCCD >= burst duration (true of every real device)
    burst_ck = {"SDR": 1, "DDR": 2, "LPDDR": 2, "DDR2": 2, "DDR3": 4, "DDR4": 4}[memtype]
    ccd = max(rng.randint(1, 3), -(-burst_ck // nphases))
    tech = {"tREFI": round(tREFI * P_ns * rng.uniform(0.999, 1.0) if not tight else tREFI * P_ns - 0.0001 * P_ns, 4),
            "tWTR": pair(rng.randint(0, 3), rng.randint(1, 3)),
            "tCCD": [ccd * nphases, None],
            "tRRD": pair(rng.randint(0, rrd), rrd),
            "tZQCS": rng.choice([None, [rng.choice([16, 32, 64]), ns_for(rng.randint(4, 20))]]) if memtype in ("DDR3", "DDR4") else None}
    speed = {"tRP": ns_for(tRP), "tRCD": ns_for(tRCD), "tWR": ns_for(tWR),
             "tRFC": [None, ns_for(tRFC)],
             # four-activate window: ns only, or (as the DDR4 RDIMM entries) with a minimum in clocks that may dominate
             "tFAW": None if faw is None else [rng.choice([None, None, faw * nphases, max(1, faw - 1) * nphases]), ns_for(max(1, faw - rng.choice([0, 0, 2])))],
             "tRAS": ns_for(tRAS)}
    bankbits = rng.choice([1, 2, 2, 3, 3, 4])
    colbits = rng.choice([8, 9, 10, 10, 11, 12])
    # the address bus (max(rowbits, colbits) wide) must carry A10 and, beyond it, the shifted column bits
    rowbits = rng.choice([r for r in (11, 12, 13, 14, 16) if colbits <= 10 or r > colbits])
    if geom is not None:
        bankbits, rowbits, colbits = geom
    return {"kind": "syn", "memtype": memtype, "nbanks": 1 << bankbits, "nrows": 1 << rowbits, "ncols": 1 << colbits,
            "tech": tech, "speed": speed}


def gen_core(rng, lib=None, nranks=None, tight=False, big_ras=False, refresh=True, nports=None,
             memtype=None, zqcs=None, short_refi=True, geom=None, model_phases=False):
    memtype = memtype or rng.choice(["SDR", "DDR", "LPDDR", "DDR2", "DDR3", "DDR3", "DDR4"])
    lib = rng.random() < 0.3 if lib is None else lib
    core = {}
    if lib:
        name = rng.choice(LIB[memtype])
        nph = MODEL_NPHASES[memtype]
        sg = rng.choice([None] + LIB_SPEEDGRADES.get(name, []))
        # clock: model PHY tables need a valid CL/CWL entry -> keep within their range
        fmax = {"SDR": 133e6, "DDR": 200e6, "LPDDR": 200e6, "DDR2": 266e6, "DDR3": 233e6, "DDR4": 333e6}[memtype]
        fmin = {"SDR": 20e6, "DDR": 50e6, "LPDDR": 50e6, "DDR2": 50e6, "DDR3": 50e6, "DDR4": 80e6}[memtype]
        f = rng.uniform(fmin, fmax)
        period = int(round(1e12 / f))
        core["module"] = {"kind": "lib", "cls": name, "speedgrade": sg}
        core["phy"] = {"from": "model"}
        nb, nr, nc = lib_geom(name)
        geom = (log2i(nb), log2i(nr), log2i(nc))
    else:
        nph = {"SDR": rng.choice([1, 1, 2]), "DDR": 2, "LPDDR": 2, "DDR2": 2, "DDR3": rng.choice([2, 4, 4]), "DDR4": 4}[memtype]
        period = rng.choice([5000, 8000, 10000, 10000, 12500, 13333])
        if model_phases and not (memtype == "SDR" and nph == 2):
            nph = MODEL_NPHASES[memtype]      # the phase counts the bundled DRAM model's burst table is written for
        m = gen_syn_module(rng, memtype, period / 1000.0, nph, tight=tight, big_ras=big_ras, geom=geom)
        core["module"] = m
        cl = rng.randint(2, 11)
        cwl = None if memtype in ("SDR", "DDR", "LPDDR") else rng.randint(1, 8)
        wl = rng.randint(0, 4)
        core["phy"] = {"nphases": nph, "rdphase": rng.randrange(nph), "wrphase": rng.randrange(nph), "cl": cl, "cwl": cwl,
                       "read_latency": rng.randint(max(2, wl + 1), 12), "write_latency": wl}
        geom = (log2i(m["nbanks"]), log2i(m["nrows"]), log2i(m["ncols"]))
    core["clk_period_ps"] = period
    core["rate"] = RATE[nph]
    core["databits"] = rng.choice([8, 16, 16, 32])
    core["nranks"] = nranks if nranks is not None else rng.choice([1, 1, 1, 2])
    post = rng.choice([1, 1, 2, 4, 8])
    ctrl = {"cmd_buffer_depth": rng.choice([1, 2, 3, 4, 8, 8, 16]), "cmd_buffer_buffered": rng.random() < 0.3,
            "read_time": rng.choice([32, 32, 8, 4, 64]), "write_time": rng.choice([16, 16, 4, 8, 32]),
            "with_refresh": refresh, "refresh_postponing": post, "with_auto_precharge": rng.random() < 0.6,
            "bank_byte_alignment": 0}
    core["ctrl"] = ctrl
    np_ = nports if nports is not None else rng.choice([1, 1, 2, 2, 3, 4, 8])
    core["ports"] = [{"mode": "both"} for _ in range(np_)]
    bl = nph if memtype == "SDR" else BURST[memtype]
    align = log2i(bl)
    dfi_databits = core["databits"] * bl // nph
    data_bytes = dfi_databits * nph // 8
    info = {"memtype": memtype, "nphases": nph, "bankbits": geom[0], "rowbits": geom[1], "colbits": geom[2],
            "rankbits": log2i(core["nranks"]), "align": align, "data_bytes": data_bytes, "period": period}
    # ZQCS: period of 2..12 refresh intervals so that several calibrations fall inside a run
    if lib:
        trefi_cyc = int(math.ceil(7800.0 * 1000 / period))
        has_zq = memtype in ("DDR3", "DDR4")
    else:
        trefi_cyc = int(math.ceil(core["module"]["tech"]["tREFI"] * 1000 / period))
        has_zq = core["module"]["tech"].get("tZQCS") is not None
    info["trefi_cyc"] = trefi_cyc
    use_zq = has_zq and (rng.random() < 0.5 if zqcs is None else zqcs)
    if use_zq:
        k = rng.randint(2, 12)
        ctrl["refresh_zqcs_freq"] = (1e12 / period) / (k * trefi_cyc + rng.randint(0, trefi_cyc - 1))
        info["zq_cyc"] = int((1e12 / period) / ctrl["refresh_zqcs_freq"])
    return core, info


def amap_of(core, info):
    return AddrMap(info["colbits"], info["rowbits"], info["bankbits"], info["rankbits"], info["align"],
                   info["data_bytes"], core["ctrl"].get("bank_byte_alignment", 0))


def gen_port_ops(rng, amap, info, n, hot, style=None, wmix=None, id0=1, delays=None, sel_mode=None):
    """ops for one port. hot = list of (rank, bank, row) triples shared between ports; columns few."""
    style = style or rng.choice(["rand", "rand", "samerow", "pingpong", "sweep", "hammer"])
    wmix = rng.choice([0.0, 0.3, 0.5, 0.7, 1.0]) if wmix is None else wmix
    delays = delays or rng.choice(["zero", "zero", "small", "gaps"])
    sel_mode = sel_mode or rng.choice(["full", "full", "rand"])
    ncolw = 1 << (info["colbits"] - info["align"])
    cols = [rng.randrange(ncolw) for _ in range(rng.choice([1, 2, 4, 8]))]
    ops = []
    k = rng.randrange(len(hot))
    for i in range(n):
        if style == "rand":
            k = rng.randrange(len(hot))
        elif style == "samerow":
            if rng.random() < 0.05:
                k = rng.randrange(len(hot))
        elif style == "pingpong":
            # alternate between two rows of the same bank when available
            same = [j for j, h in enumerate(hot) if h[:2] == hot[k][:2] and j != k]
            if same and rng.random() < 0.8:
                k = rng.choice(same)
            elif rng.random() < 0.1:
                k = rng.randrange(len(hot))
        elif style == "sweep":
            k = (k + 1) % len(hot)
        elif style == "hammer":
            pass
        rank, bank, row = hot[k]
        colw = rng.choice(cols)
        col = colw << info["align"]
        if info["colbits"] > 10:
            col = (col & 0x3FF) | ((col >> 10) << 11)
        a = amap.inv(rank, bank, row, col)
        we = 1 if rng.random() < wmix else 0
        op = {"id": id0 + i, "we": we, "addr": a}
        if we and sel_mode == "rand" and rng.random() < 0.5:
            op["sel"] = rng.getrandbits(info["data_bytes"])
        if delays == "small":
            op["delay"] = rng.choice([0, 0, 0, 1, 2, 5])
        elif delays == "gaps":
            op["delay"] = rng.choice([0, 0, 0, 0, 0, rng.randint(10, 120)])
        ops.append(op)
    return ops


def gen_hot(rng, info, nranks):
    nb = 1 << info["bankbits"]
    nrows = 1 << info["rowbits"]
    nbanks_used = rng.choice([1, 2, min(4, nb), nb])
    banks = rng.sample(range(nb), min(nb, nbanks_used))
    hot = []
    for r in range(nranks):
        for b in banks:
            for _ in range(rng.choice([1, 2, 2, 3])):
                row = rng.choice([0, nrows - 1, rng.randrange(nrows), rng.randrange(nrows)])
                hot.append((r, b, row))
    return hot
