"""Compiled evaluator for Migen fragments + multi-clock discrete-event kernel (DESIGN.md §2.1/2.2).

The fragment is elaborated by Migen itself (same preprocessing as ``migen.sim.Simulator``) and then
translated to Python source: combinatorial statement groups in topological order (SCCs iterate to a
fixed point), one function per synchronous domain reading pre-edge state.  Expression semantics mirror
``migen.sim.core.Evaluator`` operator by operator.
"""
import collections
import hashlib
import heapq

from migen.fhdl.structure import *
from migen.fhdl.structure import (_Value, _Statement, _Operator, _Slice, _Part, _ArrayProxy,
                                  _Assign, _Fragment)
from migen.fhdl.bitcontainer import value_bits_sign
from migen.fhdl.tools import (list_targets, list_inputs, list_signals, insert_resets, lower_specials,
                              group_by_targets)
from migen.fhdl.simplify import MemoryToArray
from migen.fhdl.module import Module
from migen.genlib.resetsync import AsyncResetSynchronizer
from migen.genlib.cdc import MultiReg
from migen.sim.core import DummyAsyncResetSynchronizer

_binops = {"+": "+", "*": "*", ">>>": ">>", "<<<": "<<", "&": "&", "^": "^", "|": "|",
           "<": "<", "<=": "<=", "==": "==", "!=": "!=", ">": ">", ">=": ">="}

HOIST_LEN = 1500


def _ts(v, n):
    v &= (1 << n) - 1
    if v & (1 << (n - 1)):
        v -= 1 << n
    return v


class _Compiler:
    def __init__(self, fragment, memsigs):
        self.f = fragment
        self.cds = fragment.clock_domains
        self.idx = {}
        self.consts = {}
        self.memsigs = memsigs      # signals that are memory words (dynamic targets)
        self.ntmp = 0
        self.pre = None             # list receiving hoisted temporaries (statement context)
        self.pre_ind = 0

    def sig(self, s):
        try:
            return self.idx[s]
        except KeyError:
            i = self.idx[s] = len(self.idx)
            return i

    def const(self, v):
        if v in self.consts:
            return self.consts[v]
        name = "K%d" % len(self.consts)
        self.consts[v] = name
        return name

    def hoist(self, code):
        if self.pre is not None and len(code) > HOIST_LEN:
            self.ntmp += 1
            name = "_h%d" % self.ntmp
            self.pre.append("%s%s=%s" % (" " * self.pre_ind, name, code))
            return name
        return code

    # expression -> python source.  `over`: dict sig -> local variable (in-flight reads)
    def ex(self, n, over=None, dyn=False):
        if isinstance(n, Constant):
            return repr(n.value) if n.value >= 0 else "(%d)" % n.value
        if isinstance(n, Signal):
            if over is not None and n in over:
                return over[n]
            if dyn and n in self.memsigs:
                i = self.sig(n)
                return "D.get(%d,S[%d])" % (i, i)
            return "S[%d]" % self.sig(n)
        if isinstance(n, _Operator):
            ops = [self.ex(o, over, dyn) for o in n.operands]
            if n.op == "-":
                if len(ops) == 1:
                    return "(-%s)" % ops[0]
                return self.hoist("(%s-%s)" % (ops[0], ops[1]))
            if n.op == "~":
                return "(~%s)" % ops[0]
            if n.op == "m":
                return self.hoist("(%s if %s else %s)" % (ops[1], ops[0], ops[2]))
            return self.hoist("(%s%s%s)" % (ops[0], _binops[n.op], ops[1]))
        if isinstance(n, _Slice):
            v = self.ex(n.value, over, dyn)
            w = n.stop - n.start
            if n.start == 0:
                return "(%s&%d)" % (v, (1 << w) - 1)
            return "((%s>>%d)&%d)" % (v, n.start, (1 << w) - 1)
        if isinstance(n, _Part):
            v = self.ex(n.value, over, dyn)
            o = self.ex(n.offset, over, dyn)
            return "((%s>>%s)&%d)" % (v, o, (1 << n.width) - 1)
        if isinstance(n, Cat):
            parts = []
            shift = 0
            for e in n.l:
                nb = len(e)
                if nb:
                    p = "(%s&%d)" % (self.ex(e, over, dyn), (1 << nb) - 1)
                    parts.append(p if shift == 0 else "(%s<<%d)" % (p, shift))
                shift += nb
            return self.hoist("(" + "|".join(parts) + ")") if parts else "0"
        if isinstance(n, Replicate):
            nb = len(n.v)
            mul = sum(1 << (i * nb) for i in range(n.n))
            return "((%s&%d)*%d)" % (self.ex(n.v, over, dyn), (1 << nb) - 1, mul)
        if isinstance(n, _ArrayProxy):
            key = self.ex(n.key, over, dyn)
            nch = len(n.choices)
            if all(isinstance(c, Signal) for c in n.choices) and \
                    (over is None or not any(c in over for c in n.choices)):
                name = self.const(tuple(self.sig(c) for c in n.choices))
                if dyn and any(c in self.memsigs for c in n.choices):
                    self.ntmp += 1
                    return "(lambda _i: D.get(_i,S[_i]))(%s[min(%d,%s)])" % (name, nch - 1, key)
                return "S[%s[min(%d,%s)]]" % (name, nch - 1, key)
            c0 = n.choices[0]
            if isinstance(c0, _Slice) and all(isinstance(c, _Slice) and isinstance(c.value, Signal) and c.start == c0.start
                                              and c.stop == c0.stop for c in n.choices) and \
                    (over is None or not any(c.value in over for c in n.choices)) and not dyn:
                name = self.const(tuple(self.sig(c.value) for c in n.choices))
                w = c0.stop - c0.start
                return "((S[%s[min(%d,%s)]]>>%d)&%d)" % (name, nch - 1, key, c0.start, (1 << w) - 1)
            if all(isinstance(c, Constant) for c in n.choices):
                name = self.const(tuple(c.value for c in n.choices))
                return "%s[min(%d,%s)]" % (name, nch - 1, key)
            ch = [self.ex(c, over, dyn) for c in n.choices]
            return self.hoist("(%s,)[min(%d,%s)]" % (",".join(ch), nch - 1, key))
        if isinstance(n, ClockSignal):
            return self.ex(self.cds[n.cd].clk, over, dyn)
        if isinstance(n, ResetSignal):
            rst = self.cds[n.cd].rst
            if rst is None:
                if n.allow_reset_less:
                    return "0"
                raise ValueError("reset of resetless domain " + n.cd)
            return self.ex(rst, over, dyn)
        raise NotImplementedError(type(n))

    def trunc(self, expr, s):
        if s.signed:
            return "_ts(%s,%d)" % (expr, s.nbits)
        return "(%s&%d)" % (expr, (1 << s.nbits) - 1)

    def assign(self, node, val, loc, out, ind):
        pad = " " * ind
        if isinstance(node, Signal):
            if node in loc:
                out.append("%s%s=%s" % (pad, loc[node], self.trunc(val, node)))
            elif node in self.memsigs:
                out.append("%sD[%d]=%s" % (pad, self.sig(node), self.trunc(val, node)))
            else:
                raise KeyError("assignment to unexpected target %r" % node)
        elif isinstance(node, Cat):
            self.ntmp += 1
            tmp = "_c%d" % self.ntmp
            out.append("%s%s=%s" % (pad, tmp, val))
            shift = 0
            for e in node.l:
                nb = len(e)
                self.assign(e, "((%s>>%d)&%d)" % (tmp, shift, (1 << nb) - 1), loc, out, ind)
                shift += nb
        elif isinstance(node, _Slice):
            full = self.ex(node.value, loc, dyn=True)
            mask = ((1 << node.stop) - 1) - ((1 << node.start) - 1)
            w = node.stop - node.start
            nv = "((%s&%d)|((%s&%d)<<%d))" % (full, ~mask, val, (1 << w) - 1, node.start)
            self.assign(node.value, nv, loc, out, ind)
        elif isinstance(node, _Part):
            full = self.ex(node.value, loc, dyn=True)
            off = self.ex(node.offset, loc, dyn=True)
            m = (1 << node.width) - 1
            nv = "((%s&~(%d<<%s))|((%s&%d)<<%s))" % (full, m, off, val, m, off)
            self.assign(node.value, nv, loc, out, ind)
        elif isinstance(node, _ArrayProxy):
            key = self.ex(node.key, None)
            nch = len(node.choices)
            c0 = node.choices[0]
            if isinstance(c0, _Slice) and all(isinstance(c, _Slice) and isinstance(c.value, Signal) and c.value in self.memsigs
                                              and c.start == c0.start and c.stop == c0.stop for c in node.choices):
                # slice of a memory word selected by an index (byte-granular write enables)
                name = self.const(tuple(self.sig(c.value) for c in node.choices))
                self.ntmp += 1
                iv = "_i%d" % self.ntmp
                mask = ((1 << c0.stop) - 1) - ((1 << c0.start) - 1)
                w = c0.stop - c0.start
                full = (1 << c0.value.nbits) - 1
                out.append("%s%s=%s[min(%d,%s)]" % (pad, iv, name, nch - 1, key))
                out.append("%sD[%s]=((D.get(%s,S[%s])&%d)|((%s&%d)<<%d))&%d" % (pad, iv, iv, iv, ~mask, val, (1 << w) - 1, c0.start, full))
                return
            if all(isinstance(c, Signal) and c in self.memsigs for c in node.choices):
                widths = set((c.nbits, c.signed) for c in node.choices)
                if len(widths) == 1:
                    name = self.const(tuple(self.sig(c) for c in node.choices))
                    out.append("%sD[%s[min(%d,%s)]]=%s" % (pad, name, nch - 1, key,
                                                              self.trunc(val, node.choices[0])))
                    return
            self.ntmp += 1
            a = "_a%d" % self.ntmp
            w = "_w%d" % self.ntmp
            out.append("%s%s=min(%d,%s)" % (pad, a, nch - 1, key))
            out.append("%s%s=%s" % (pad, w, val))
            for i, c in enumerate(node.choices):
                out.append("%s%s %s==%d:" % (pad, "if" if i == 0 else "elif", a, i))
                self.assign(c, w, loc, out, ind + 1)
        else:
            raise NotImplementedError(type(node))

    def stmts(self, sl, loc, out, ind):
        pad = " " * ind
        n0 = len(out)
        for s in sl:
            if isinstance(s, _Assign):
                self.pre, self.pre_ind = out, ind
                self.assign(s.l, self.ex(s.r, None), loc, out, ind)
            elif isinstance(s, If):
                self.pre, self.pre_ind = out, ind
                cond = "(%s&%d)" % (self.ex(s.cond, None), (1 << len(s.cond)) - 1)
                out.append("%sif %s:" % (pad, cond))
                self.stmts(s.t, loc, out, ind + 1)
                if s.f:
                    out.append("%selse:" % pad)
                    self.stmts(s.f, loc, out, ind + 1)
            elif isinstance(s, Case):
                self.pre, self.pre_ind = out, ind
                nbits, signed = value_bits_sign(s.test)
                t = self.ex(s.test, None)
                t = "_ts(%s,%d)" % (t, nbits) if signed else "(%s&%d)" % (t, (1 << nbits) - 1)
                self.ntmp += 1
                tv = "_t%d" % self.ntmp
                out.append("%s%s=%s" % (pad, tv, t))
                first = True
                seen = set()
                for k, v in s.cases.items():
                    if isinstance(k, Constant):
                        if k.value in seen:
                            continue
                        seen.add(k.value)
                        out.append("%s%s %s==%d:" % (pad, "if" if first else "elif", tv, k.value))
                        first = False
                        self.stmts(v, loc, out, ind + 1)
                if "default" in s.cases:
                    out.append("%sif 1:" % pad if first else "%selse:" % pad)
                    self.stmts(s.cases["default"], loc, out, ind + 1)
            elif isinstance(s, collections.abc.Iterable):
                self.stmts(s, loc, out, ind)
            elif isinstance(s, Display):
                pass
            else:
                raise NotImplementedError(type(s))
        if len(out) == n0:
            out.append("%spass" % pad)


def _sccs(n, succ):
    """Tarjan (iterative). Returns SCCs in reverse topological order."""
    index = [None] * n
    low = [0] * n
    onst = [False] * n
    st = []
    res = []
    counter = 0
    for root in range(n):
        if index[root] is not None:
            continue
        work = [(root, 0)]
        while work:
            v, pi = work.pop()
            if pi == 0:
                index[v] = low[v] = counter
                counter += 1
                st.append(v)
                onst[v] = True
            recurse = False
            ss = succ[v]
            for i in range(pi, len(ss)):
                w = ss[i]
                if index[w] is None:
                    work.append((v, i + 1))
                    work.append((w, 0))
                    recurse = True
                    break
                elif onst[w]:
                    low[v] = min(low[v], index[w])
            if recurse:
                continue
            if low[v] == index[v]:
                comp = []
                while True:
                    w = st.pop()
                    onst[w] = False
                    comp.append(w)
                    if w == v:
                        break
                res.append(comp)
            if work:
                u = work[-1][0]
                low[u] = min(low[u], low[v])
    return res


class _TrackedMultiRegImpl(Module):
    """Same structure as migen's MultiRegImpl; the registers are published for the CDC fault model."""
    registry = None

    def __init__(self, i, o, odomain, n, reset=0):
        w, signed = value_bits_sign(i)
        self.regs = [Signal((w, signed), reset=reset, reset_less=True) for _ in range(n)]
        sd = getattr(self.sync, odomain)
        src = i
        for reg in self.regs:
            sd += reg.eq(src)
            src = reg
        self.comb += o.eq(src)
        if _TrackedMultiRegImpl.registry is not None:
            _TrackedMultiRegImpl.registry.append((i, self.regs[0], odomain))


class _TrackedMultiReg:
    @staticmethod
    def lower(dr):
        return _TrackedMultiRegImpl(dr.i, dr.o, dr.odomain, dr.n, dr.reset)


class Clock:
    __slots__ = ("name", "period", "phase", "jitter", "k")

    def __init__(self, name, period, phase=0, jitter=None):
        self.name = name
        self.period = int(period)
        self.phase = int(phase)
        self.jitter = list(jitter) if jitter else None
        self.k = 0

    def edge_time(self, k):
        t = self.phase + k * self.period
        if self.jitter:
            t += self.jitter[k % len(self.jitter)]
        return t


class Sim:
    """Compiled DUT + kernel.

    clocks: dict name -> period | (period, phase) | dict(period=, phase=, jitter=[...]) ; time unit is
    whatever the caller uses consistently (picoseconds in the checks).
    Agents are callables ``a(sim)`` registered per domain; they run before the edge, read pre-edge values
    from ``sim.S`` and queue writes with ``sim.poke``.
    """

    def __init__(self, dut, clocks=None, track_multireg=False):
        clocks = clocks or {"sys": 10000}
        self.clocks = {}
        for name in sorted(clocks):
            c = clocks[name]
            if isinstance(c, dict):
                self.clocks[name] = Clock(name, c["period"], c.get("phase", 0), c.get("jitter"))
            elif isinstance(c, (tuple, list)):
                self.clocks[name] = Clock(name, c[0], c[1])
            else:
                self.clocks[name] = Clock(name, c)
        f = dut.get_fragment() if not isinstance(dut, _Fragment) else dut
        mta = MemoryToArray()
        mta.transform_fragment(None, f)
        overrides = {AsyncResetSynchronizer: DummyAsyncResetSynchronizer}
        self.multiregs = []
        if track_multireg:
            _TrackedMultiRegImpl.registry = self.multiregs
            overrides[MultiReg] = _TrackedMultiReg
        try:
            f, lowered = lower_specials(overrides, f)
        finally:
            _TrackedMultiRegImpl.registry = None
        if f.specials:
            raise ValueError("Could not lower all specials", f.specials)
        for clock in sorted(set(self.clocks) | set(f.sync.keys())):
            # domains without a clock in `clocks` exist but never tick (e.g. output serialisers that are not observed)
            if clock not in f.clock_domains:
                cd = ClockDomain(name=clock, reset_less=True)
                f.clock_domains.append(cd)
        insert_resets(f)
        self.fragment = f
        memsigs = set()
        for arr in mta.replacements.values():
            memsigs |= set(arr)
        self.memories = {mem: list(arr) for mem, arr in mta.replacements.items()}
        c = self.c = _Compiler(f, memsigs)
        sigs = set(list_signals(f))
        for cd in f.clock_domains:
            sigs.add(cd.clk)
            if cd.rst is not None:
                sigs.add(cd.rst)
        sigs |= memsigs
        for s in sorted(sigs, key=lambda x: x.duid):
            c.sig(s)
        out = []
        self._compile_comb(f, out)
        self._compile_sync(f, out)
        src = "\n".join(out)
        self.src = src
        ns = {"_ts": _ts, "min": min}
        for v, name in c.consts.items():
            ns[name] = v
        exec(compile(src, "<vsim:%s>" % type(dut).__name__, "exec"), ns)
        self.S = [0] * len(c.idx)
        self.mask = [0] * len(c.idx)
        self.signed = {}
        for s, i in c.idx.items():
            self.S[i] = s.reset.value
            self.mask[i] = (1 << s.nbits) - 1
            if s.signed:
                self.signed[i] = s.nbits
        self.comb = ns["comb"]
        self.syncs = {cd: (ns["sync_%s" % cd], ns["commit_%s" % cd]) for cd in f.sync}
        self.comb(self.S)
        self.comb(self.S)
        # kernel state
        self.now = 0
        self.cycles = {name: 0 for name in self.clocks}
        self.agents = {name: [] for name in self.clocks}
        self.commit_hooks = []
        self.post_hooks = []
        self._pokes = []
        self.stop = False
        self.nev = 0
        self._h = hashlib.sha256()
        self.tail = collections.deque(maxlen=64)
        self._heap = []
        for name, ck in self.clocks.items():
            heapq.heappush(self._heap, (ck.edge_time(0), name))

    # ---- compilation -------------------------------------------------------------------------
    def _compile_comb(self, f, out):
        c = self.c
        groups = group_by_targets(f.comb)
        tgt_of = {}
        ginfo = []
        for gi, (targets, st) in enumerate(groups):
            ins = set(list_inputs(st))
            ginfo.append((sorted(targets, key=lambda x: x.duid), st, ins))
            for t in targets:
                tgt_of[t] = gi
        succ = [[] for _ in groups]
        selfdep = [False] * len(groups)
        for gi, (targets, st, ins) in enumerate(ginfo):
            for i in sorted(ins, key=lambda x: x.duid):
                if i in tgt_of:
                    srcg = tgt_of[i]
                    if srcg == gi:
                        selfdep[gi] = True
                    elif gi not in succ[srcg]:
                        succ[srcg].append(gi)
        comps = _sccs(len(groups), succ)
        comps.reverse()
        out.append("def comb(S):")
        self.nloops = 0
        for comp in comps:
            comp.sort()
            loop = len(comp) > 1 or selfdep[comp[0]]
            ind = 1
            if loop:
                self.nloops += 1
                out.append(" for _it in range(1000):")
                out.append("  _ch=False")
                ind = 2
            for gi in comp:
                targets, st, ins = ginfo[gi]
                loc = {t: "c%d" % c.sig(t) for t in targets}
                pad = " " * ind
                for t in targets:
                    out.append("%s%s=%d" % (pad, loc[t], t.reset.value))
                c.stmts(st, loc, out, ind)
                for t in targets:
                    if loop:
                        out.append("%sif S[%d]!=%s: S[%d]=%s; _ch=True" % (pad, c.sig(t), loc[t], c.sig(t), loc[t]))
                    else:
                        out.append("%sS[%d]=%s" % (pad, c.sig(t), loc[t]))
            if loop:
                out.append("  if not _ch: break")
                out.append(" else: raise RuntimeError('combinatorial loop did not settle')")
        out.append(" return")
        self.comb_targets = set(tgt_of)

    def _compile_sync(self, f, out):
        c = self.c
        for cdname in sorted(f.sync):
            st = f.sync[cdname]
            targets = sorted((t for t in set(list_targets(st)) if t not in c.memsigs), key=lambda x: x.duid)
            loc = {t: "n%d" % c.sig(t) for t in targets}
            out.append("def sync_%s(S):" % cdname)
            out.append(" D={}")
            for t in targets:
                out.append(" %s=S[%d]" % (loc[t], c.sig(t)))
            c.stmts(st, loc, out, 1)
            out.append(" return ((" + ",".join(loc[t] for t in targets) + ("," if targets else "") + "),D)")
            out.append("def commit_%s(S,ND):" % cdname)
            if targets:
                out.append(" (" + ",".join("S[%d]" % c.sig(t) for t in targets) + ",)=ND[0]")
            out.append(" for _i,_v in ND[1].items(): S[_i]=_v")

    # ---- signal access -------------------------------------------------------------------------
    def index(self, s):
        i = self.c.idx.get(s)
        if i is None:
            i = self.c.idx[s] = len(self.S)
            self.S.append(s.reset.value)
            self.mask.append((1 << s.nbits) - 1)
            if s.signed:
                self.signed[i] = s.nbits
        return i

    def has(self, s):
        return s in self.c.idx

    def get(self, s):
        return self.S[self.index(s)]

    def poke(self, i, v):
        """Queue a write (index from ``index``) that lands after the coming edge."""
        self._pokes.append((i, v))

    def set(self, s, v):
        self._pokes.append((self.index(s), v))

    def force(self, s, v):
        """Immediate write + resettle (initialisation only)."""
        i = self.index(s)
        self.S[i] = v & self.mask[i]
        self.comb(self.S)

    def add_agent(self, domain, fn):
        self.agents[domain].append(fn)

    # ---- event log ---------------------------------------------------------------------------
    def ev(self, *e):
        self.nev += 1
        r = repr(e)
        self._h.update(r.encode())
        self.tail.append((self.now,) + e)

    def digest(self):
        return self._h.hexdigest()[:16]

    # ---- kernel ------------------------------------------------------------------------------
    def step(self):
        """Advance to the next instant at which one or more clocks rise."""
        heap = self._heap
        t, name = heapq.heappop(heap)
        doms = [name]
        while heap and heap[0][0] == t:
            doms.append(heapq.heappop(heap)[1])
        doms.sort()
        self.now = t
        self.doms = doms
        S = self.S
        for d in doms:
            for a in self.agents[d]:
                a(self)
        res = []
        syncs = self.syncs
        for d in doms:
            sc = syncs.get(d)
            if sc is not None:
                res.append((sc[1], sc[0](S)))
        for cm, nd in res:
            cm(S, nd)
        if self._pokes:
            mask = self.mask
            for i, v in self._pokes:
                v &= mask[i]
                if i in self.signed and v >> (self.signed[i] - 1):
                    v -= 1 << self.signed[i]
                S[i] = v
            self._pokes = []
        for h in self.commit_hooks:
            h(self)
        self.comb(S)
        for h in self.post_hooks:
            h(self)
        for d in doms:
            ck = self.clocks[d]
            ck.k += 1
            self.cycles[d] += 1
            heapq.heappush(heap, (ck.edge_time(ck.k), d))

    # ---- CDC fault model --------------------------------------------------------------------------
    def enable_metastability(self, window, decisions):
        """Two-outcome metastability model on the first flop of every (tracked) MultiReg.

        When the synchroniser input changed less than `window` time units before the sampling edge of the
        output domain (or exactly at it), each changed bit may resolve to the old or to the new value;
        `decisions` is a cyclic list of bit masks (1 = deviate from the ideal pre-edge sample).
        Returns a dict with the number of sampling events inside the window and the number altered."""
        st = {"near": 0, "altered": 0}
        self.meta_stats = st
        trk = []
        for (i, r0, od) in self.multiregs:
            if not isinstance(i, Signal):
                continue
            ii = self.index(i)
            trk.append([ii, self.index(r0), od, self.S[ii], self.S[ii], -10 ** 18, len(trk)])  # idx_i, idx_r0, dom, last, prev, t_change, ordinal
        dec = list(decisions) or [0]
        k = [0]

        def commit_hook(sim):
            S = sim.S
            for t in trk:
                if t[2] in sim.doms:
                    if 0 < sim.now - t[5] < window and t[3] != t[4]:
                        st["near"] += 1
                        m = dec[k[0] % len(dec)]
                        k[0] += 1
                        diff = (t[3] ^ t[4]) & m
                        if diff:
                            # sampled value is t[3] (new); changed bits selected by the mask resolve to old
                            S[t[1]] = (S[t[1]] & ~diff) | (t[4] & diff)
                            st["altered"] += 1
                            sim.ev("meta", t[6], diff)

        def post_hook(sim):
            S = sim.S
            for t in trk:
                cur = S[t[0]]
                if cur != t[3]:
                    t[4] = t[3]
                    t[3] = cur
                    t[5] = sim.now
                    if t[2] in sim.doms:
                        # input changed at the very instant of the sampling edge: ideal sample is old, may be new
                        st["near"] += 1
                        m = dec[k[0] % len(dec)]
                        k[0] += 1
                        diff = (t[3] ^ t[4]) & m
                        if diff:
                            S[t[1]] = (S[t[1]] & ~diff) | (t[3] & diff)
                            st["altered"] += 1
                            sim.ev("meta", t[6], diff)
        self.commit_hooks.append(commit_hook)
        self.post_hooks.append(post_hook)
        return st

    def run(self, max_cycles, domain="sys"):
        cyc = self.cycles
        while not self.stop and cyc[domain] < max_cycles:
            self.step()
        return cyc[domain]
