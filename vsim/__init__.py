"""vsim — deterministic simulation with fault injection for LiteDRAM.

Importing this package (before any ``litedram`` import) does two things:

* puts the repository under test (``$VSIM_REPO``, default ``/repo``) first on ``sys.path`` so the
  checks always elaborate the *current working tree* of the repository;
* applies the two in-process shims for the pinned third-party libraries (DESIGN.md §2.4).
"""
import os
import sys

REPO = os.environ.get("VSIM_REPO", "/repo")
VERIF = os.path.dirname(os.path.dirname(os.path.abspath(__file__)))
GUARD = "LITEDRAM_VERIF"
os.environ.setdefault(GUARD, "1")

if REPO not in sys.path[:1]:
    sys.path.insert(0, REPO)

from . import shim  # noqa: E402  (must precede litedram imports)

shim.apply()


def check_repo_import():
    import litedram
    f = os.path.realpath(litedram.__file__)
    if not f.startswith(os.path.realpath(REPO) + os.sep):
        raise RuntimeError("litedram imported from %s, expected under %s" % (f, REPO))
