"""Same kernel API as vsim.engine.Sim, but executing the fragment with migen.sim's own Evaluator.

Used only by the engine-equivalence self-test: the same scenario, agents and oracles run on both interpreters and the
event-log digests must be identical.
"""
import collections
import hashlib
import heapq

from migen.fhdl.structure import *
from migen.fhdl.structure import _Fragment
from migen.genlib.cdc import MultiReg
from migen.sim.core import Simulator

from .engine import Clock, _TrackedMultiReg, _TrackedMultiRegImpl


class _Proxy:
    def __init__(self, owner):
        self.o = owner

    def __getitem__(self, i):
        sig = self.o.sigs[i]
        ev = self.o.ev_
        try:
            return ev.signal_values[sig]
        except KeyError:
            return sig.reset.value

    def __setitem__(self, i, v):
        sig = self.o.sigs[i]
        self.o.ev_.signal_values[sig] = v


class MigenSim:
    def __init__(self, dut, clocks=None, track_multireg=False):
        clocks = clocks or {"sys": 10000}
        self.clocks = {}
        for name in sorted(clocks):
            c = clocks[name]
            if isinstance(c, dict):
                self.clocks[name] = Clock(name, c["period"], c.get("phase", 0), c.get("jitter"))
            elif isinstance(c, (tuple, list)):
                self.clocks[name] = Clock(name, c[0], c[1])
            else:
                self.clocks[name] = Clock(name, c)
        self.multiregs = []
        overrides = {}
        if track_multireg:
            _TrackedMultiRegImpl.registry = self.multiregs
            overrides[MultiReg] = _TrackedMultiReg
        f = dut.get_fragment() if not isinstance(dut, _Fragment) else dut
        for name in sorted(f.sync.keys()):
            if name not in self.clocks and name not in f.clock_domains:
                f.clock_domains.append(ClockDomain(name=name, reset_less=True))
        try:
            self.msim = Simulator(f, [], clocks={k: 10 for k in self.clocks}, special_overrides=overrides)
        finally:
            _TrackedMultiRegImpl.registry = None
        self.ev_ = self.msim.evaluator
        self.fragment = self.msim.fragment
        self.sigs = []
        self.idx = {}
        self.S = _Proxy(self)
        self.msim.evaluator.execute(self.fragment.comb)
        self.msim._commit_and_comb_propagate()
        self.memories = {mem: list(arr) for mem, arr in self.ev_.replaced_memories.items()}
        self.now = 0
        self.cycles = {name: 0 for name in self.clocks}
        self.agents = {name: [] for name in self.clocks}
        self.commit_hooks = []
        self.post_hooks = []
        self._pokes = []
        self.stop = False
        self.nev = 0
        self._h = hashlib.sha256()
        self.tail = collections.deque(maxlen=64)
        self._heap = []
        for name, ck in self.clocks.items():
            heapq.heappush(self._heap, (ck.edge_time(0), name))

    def index(self, s):
        i = self.idx.get(s)
        if i is None:
            i = self.idx[s] = len(self.sigs)
            self.sigs.append(s)
        return i

    def has(self, s):
        return True

    def get(self, s):
        return self.S[self.index(s)]

    def poke(self, i, v):
        self._pokes.append((i, v))

    def set(self, s, v):
        self._pokes.append((self.index(s), v))

    def force(self, s, v):
        self.ev_.assign(s, v)
        self.msim._commit_and_comb_propagate()

    def add_agent(self, domain, fn):
        self.agents[domain].append(fn)

    def ev(self, *e):
        self.nev += 1
        self._h.update(repr(e).encode())
        self.tail.append((self.now,) + e)

    def digest(self):
        return self._h.hexdigest()[:16]

    enable_metastability = None

    def step(self):
        heap = self._heap
        t, name = heapq.heappop(heap)
        doms = [name]
        while heap and heap[0][0] == t:
            doms.append(heapq.heappop(heap)[1])
        doms.sort()
        self.now = t
        self.doms = doms
        for d in doms:
            for a in self.agents[d]:
                a(self)
        ev = self.ev_
        for d in doms:
            if d in self.fragment.sync:
                ev.execute(self.fragment.sync[d])
        for i, v in self._pokes:
            ev.assign(self.sigs[i], v)
        self._pokes = []
        # commit registers and agent writes, then stored-state fault hooks, then settle
        ev.commit()
        for h in self.commit_hooks:
            h(self)
        ev.execute(self.fragment.comb)
        self.msim._commit_and_comb_propagate()
        for h in self.post_hooks:
            h(self)
        for d in doms:
            ck = self.clocks[d]
            ck.k += 1
            self.cycles[d] += 1
            heapq.heappush(heap, (ck.edge_time(ck.k), d))

    def run(self, max_cycles, domain="sys"):
        cyc = self.cycles
        while not self.stop and cyc[domain] < max_cycles:
            self.step()
        return cyc[domain]


# the CDC fault model is engine independent: reuse the implementation
from .engine import Sim as _Sim  # noqa: E402
MigenSim.enable_metastability = _Sim.enable_metastability
