"""DramRef: independent DRAM + PHY reference on the DFI bus, and AddrMap (DESIGN.md §4.3, §4.6).

Written from JEDEC command semantics and the PhySettings field documentation — not from phy/model.py.
Decodes one command per phase per selected rank, tracks bank state (C02), checks command spacing against
the module's datasheet entry (C03), records REF/ZQC times (C04), links column commands to the requests
accepted at the crossbar (C02/C06) and moves data (C01).
"""
import math

from .agents import init_byte


def log2i(n):
    assert n > 0 and (n & (n - 1)) == 0, n
    return n.bit_length() - 1


class AddrMap:
    """port word address <-> (rank, bank, row, column-on-the-bus); independent of the repo's slicing.

    Low `colbits-align` bits walk columns, then (at bit max(colbits-align, log2(bank_byte_alignment /
    bytes per word))) bankbits+rankbits bank bits with the rank as MSB, the remaining bits are the row
    (low row bits sit below the bank bits when the bank alignment exceeds a row).  The column put on the
    bus is col<<align with bit 10 skipped when colbits > 10.
    """

    def __init__(self, colbits, rowbits, bankbits, rankbits, align, data_bytes, bank_byte_alignment=0):
        self.colbits, self.rowbits, self.bankbits, self.rankbits = colbits, rowbits, bankbits, rankbits
        self.align = align
        self.ncol = colbits - align
        sh = self.ncol
        if bank_byte_alignment:
            w = bank_byte_alignment // data_bytes
            if w > 0:
                sh = max(sh, log2i(w))
        self.shift = sh
        self.bb = bankbits + rankbits
        self.aw = self.ncol + rowbits + self.bb
        self.data_bytes = data_bytes

    def fwd(self, a):
        sh, bb = self.shift, self.bb
        low = a & ((1 << sh) - 1)
        bt = (a >> sh) & ((1 << bb) - 1)
        hi = a >> (sh + bb)
        rc = low | (hi << sh)
        colw = rc & ((1 << self.ncol) - 1)
        row = rc >> self.ncol
        bank = bt & ((1 << self.bankbits) - 1)
        rank = bt >> self.bankbits
        col = colw << self.align
        if self.colbits > 10:
            col = (col & 0x3FF) | ((col >> 10) << 11)
        return rank, bank, row, col

    def compact(self, col):
        """column as on the bus -> column with the A10 gap removed"""
        if self.colbits > 10:
            return (col & 0x3FF) | ((col >> 11) << 10)
        return col

    def fwd_c(self, a):
        rank, bank, row, col = self.fwd(a)
        return rank, bank, row, self.compact(col)

    def inv(self, rank, bank, row, col):
        return self.inv_c(rank, bank, row, self.compact(col))

    def inv_c(self, rank, bank, row, col):
        colw = col >> self.align
        rc = colw | (row << self.ncol)
        sh, bb = self.shift, self.bb
        low = rc & ((1 << sh) - 1)
        hi = rc >> sh
        return low | (((rank << self.bankbits) | bank) << sh) | (hi << (sh + bb))


NOP, ACT, PRE, REF, MRS, RD, WR, ZQC = "NOP", "ACT", "PRE", "REF", "MRS", "RD", "WR", "ZQC"
_DEC = {  # (ras, cas, we) active-high
    (0, 0, 0): NOP, (1, 0, 0): ACT, (1, 0, 1): PRE, (1, 1, 0): REF, (1, 1, 1): MRS,
    (0, 1, 0): RD, (0, 1, 1): WR, (0, 0, 1): ZQC,
}

BURST_CLOCKS = {"SDR": 1, "DDR": 2, "LPDDR": 2, "DDR2": 2, "DDR3": 4, "DDR4": 4}


class Datasheet:
    """Datasheet entry of the selected module as (ck, ns) pairs, read from the raw tables."""
    NAMES = ["tRP", "tRCD", "tWR", "tWTR", "tREFI", "tRFC", "tFAW", "tCCD", "tRRD", "tRAS", "tZQCS"]

    def __init__(self, module=None, values=None):
        self.t = {}
        if values is not None:
            for k, v in values.items():
                self.t[k] = None if v is None else (v[0] or 0, v[1] or 0)
            return
        for name in self.NAMES:
            raw = None
            if name in ("tRP", "tRCD", "tWR", "tRFC", "tFAW", "tRAS"):
                if hasattr(module, "speedgrade_timings"):
                    sg = "default" if module.speedgrade is None else module.speedgrade
                    raw = getattr(module.speedgrade_timings[sg], name)
                else:
                    raw = getattr(module, name + ("_" + module.speedgrade if module.speedgrade else ""), None)
            else:
                if hasattr(module, "technology_timings"):
                    raw = getattr(module.technology_timings, name)
                else:
                    raw = getattr(module, name, None)
            if name in ("tREFI", "tRFC") and isinstance(raw, dict):
                raw = raw[getattr(module.timing_settings, "fine_refresh_mode", None) or "1x"]
            if raw is None:
                self.t[name] = None
            elif isinstance(raw, tuple):
                self.t[name] = (raw[0] or 0, raw[1] or 0)
            else:
                self.t[name] = (0, raw)

    def get(self, name):
        return self.t.get(name)

    def as_dict(self):
        return {k: (None if v is None else list(v)) for k, v in self.t.items()}


class DramRef:
    def __init__(self, sim, dfi, cfg, viol, amap=None, datasheet=None, active=True, domain="sys"):
        self.sim = sim
        self.viol = viol
        self.cfg = cfg
        self.amap = amap
        self.ds = datasheet
        self.active = active
        self.nph = nph = cfg["nphases"]
        self.nranks = cfg.get("nranks", 1)
        self.nbanks = 1 << cfg["bankbits"]
        self.colbits = cfg["colbits"]
        self.rl, self.wl = cfg["read_latency"], cfg["write_latency"]
        self.rdphase, self.wrphase = cfg["rdphase"], cfg["wrphase"]
        self.memtype = cfg["memtype"]
        self.period_ps = cfg["period_ps"]
        self.dbits = cfg["dfi_databits"]
        self.dbytes = self.dbits // 8
        self.word_bytes = self.dbytes * nph
        self.align = cfg["align"]
        self.burst_ck = BURST_CLOCKS[self.memtype]
        mt = self.memtype
        self.WL = 0 if mt == "SDR" else (1 if mt in ("DDR", "LPDDR") else cfg.get("cwl", 0))
        ix = sim.index
        self.ph = []
        for p in dfi.phases:
            self.ph.append({k: ix(getattr(p, k)) for k in
                            ("cs_n", "ras_n", "cas_n", "we_n", "bank", "address", "wrdata", "wrdata_en",
                             "wrdata_mask", "rddata_en", "rddata", "rddata_valid", "cke", "odt", "reset_n")})
        self.csmask = (1 << self.nranks) - 1
        self.cycle = 0
        self.store = {}             # (rank, bank, row, col) -> word
        self.open = [[None] * self.nbanks for _ in range(self.nranks)]
        self.wq = []                # (due_cycle, key)
        self.rq = []                # (due_cycle, word)
        self.read_xor = None        # optional list of XOR masks, one per returned read burst
        self.nreturned = 0
        self.rv = 0
        self.reqq = {}              # (rank, bank) -> list of accepted requests (we, row, col, tag)
        # timing state (DRAM clock timestamps)
        R, B = self.nranks, self.nbanks
        self.t_act = [[None] * B for _ in range(R)]
        self.t_pre = [[None] * B for _ in range(R)]     # effective precharge start (explicit or auto)
        self.t_wr = [[None] * B for _ in range(R)]
        self.t_rd = [[None] * B for _ in range(R)]
        self.acts = [[] for _ in range(R)]
        self.t_ref = [None] * R
        self.t_zqc = [None] * R
        self.t_col = [None] * R
        self.t_col_kind = [dict() for _ in range(R)]
        self.t_wr_rank = [None] * R
        self.t_any = [None] * R
        self.refs = []              # (time_ps, rank)   first rank only recorded once per command
        self.zqcs = []
        self.preas = []
        self.ncmd = {k: 0 for k in (ACT, PRE, REF, MRS, RD, WR, ZQC)}
        self.nauto = 0
        self.grams = set()
        self._hist = []
        self.min_slack = {}         # timing name -> minimal observed (spacing - required) in ck
        self.on_cmd = None          # callback(kind, rank, bank, addr, t)
        self.ncompared = 0
        self.default_fn = None
        sim.add_agent(domain, self)

    # ---- helpers ---------------------------------------------------------------------------------
    def push_request(self, rank, bank, we, row, col, tag):
        self.reqq.setdefault((rank, bank), []).append((we, row, col, tag))

    def busy(self):
        """Requests accepted at the crossbar whose column command has not appeared on the DFI bus yet, or data still in flight."""
        return bool(self.wq) or bool(self.rq) or any(self.reqq.values())

    def default_word(self, key):
        if self.default_fn is not None:
            return self.default_fn(key)
        if self.amap is None:
            return 0
        a = self.amap.inv_c(*key)
        base = a * self.word_bytes
        v = 0
        for b in range(self.word_bytes):
            v |= init_byte(base + b) << (8 * b)
        return v

    def read_key(self, key):
        v = self.store.get(key)
        return self.default_word(key) if v is None else v

    def _need(self, name, spacing, what, extra_ck=0, t=None):
        """Check spacing (DRAM clocks) against datasheet timing `name` (+extra_ck clocks)."""
        ds = self.ds
        if ds is None:
            return
        T = ds.get(name)
        if T is None:
            return
        ck, ns = T
        eff = spacing - extra_ck
        need_ck = ck
        # ns requirement -> clocks (rational: eff * period_ps / nph >= ns*1000)
        lhs = eff * self.period_ps
        rhs = ns * 1000.0 * self.nph
        ok = eff >= ck and lhs >= rhs * (1 - 1e-9) - 1e-6
        req = max(ck, math.ceil(rhs / self.period_ps - 1e-9)) if self.period_ps else ck
        slack = eff - req
        if name not in self.min_slack or slack < self.min_slack[name]:
            self.min_slack[name] = slack
        if not ok:
            self.viol.add("c03." + name, "%s: %s spaced %d DRAM clocks%s = %.3f ns, datasheet requires %s ck / %s ns (tCK %.3f ns)"
                          % (name, what, spacing, (" (%d after WL+burst)" % eff) if extra_ck else "",
                             eff * self.period_ps / self.nph / 1000.0, ck, ns, self.period_ps / self.nph / 1000.0))

    # ---- per-cycle ---------------------------------------------------------------------------------
    def __call__(self, sim):
        S = sim.S
        c = self.cycle
        nph = self.nph
        viol = self.viol
        # 1. sample commands
        ncmd_cycle = 0
        for p, ph in enumerate(self.ph):
            ras, cas, we = 1 - S[ph["ras_n"]], 1 - S[ph["cas_n"]], 1 - S[ph["we_n"]]
            rden, wren = S[ph["rddata_en"]], S[ph["wrdata_en"]]
            kind = _DEC[(ras, cas, we)]
            cs = (~S[ph["cs_n"]]) & self.csmask
            if kind == NOP:
                if rden:
                    viol.add("c02.rddata_en_without_read", "rddata_en on phase %d without a read command" % p)
                if wren:
                    viol.add("c02.wrdata_en_without_write", "wrdata_en on phase %d without a write command" % p)
                continue
            t = c * nph + p
            bank, addr = S[ph["bank"]], S[ph["address"]]
            if not cs:
                viol.add("c02.cmd_without_cs", "%s on phase %d with no chip-select asserted" % (kind, p))
                continue
            ncmd_cycle += 1
            self.ncmd[kind] += 1
            if kind == RD:
                if p != self.rdphase:
                    viol.add("c02.read_phase", "read command on phase %d, PHY read phase is %d" % (p, self.rdphase))
                if not rden:
                    viol.add("c02.read_without_rddata_en", "read command on phase %d without rddata_en" % p)
            elif rden:
                viol.add("c02.rddata_en_without_read", "rddata_en on phase %d with %s" % (p, kind))
            if kind == WR:
                if p != self.wrphase:
                    viol.add("c02.write_phase", "write command on phase %d, PHY write phase is %d" % (p, self.wrphase))
                if not wren:
                    viol.add("c02.write_without_wrdata_en", "write command on phase %d without wrdata_en" % p)
            elif wren:
                viol.add("c02.wrdata_en_without_write", "wrdata_en on phase %d with %s" % (p, kind))
            first = True
            for r in range(self.nranks):
                if (cs >> r) & 1:
                    self._command(kind, r, bank, addr, t, p, c, first)
                    first = False
            g = (kind, p)
            self._hist.append(g)
            if len(self._hist) >= 4:
                self.grams.add(tuple(self._hist[-4:]))
                del self._hist[0]
        # 2. capture write data due now (after sampling: write_latency may be 0)
        while self.wq and self.wq[0][0] <= c:
            _, key, ew = self.wq.pop(0)
            for r_ in self.rq:
                # reads commanded before this write must not see it
                if r_[1] == key and r_[2] is None and r_[3] < ew:
                    r_[2] = self.read_key(key)
            word = 0
            mask = 0
            for p, ph in enumerate(self.ph):
                word |= S[ph["wrdata"]] << (p * self.dbits)
                mask |= S[ph["wrdata_mask"]] << (p * self.dbytes)
            old = self.read_key(key)
            for b in range(self.word_bytes):
                if not (mask >> b) & 1:
                    old = (old & ~(0xFF << (8 * b))) | (word & (0xFF << (8 * b)))
            self.store[key] = old
            sim.ev("dram", "wdata", key, word, mask)
        # 3. read data return
        if self.active:
            if self.rq and self.rq[0][0] <= c:
                _, key, snap, _e = self.rq.pop(0)
                word = self.read_key(key) if snap is None else snap
                if self.read_xor is not None:
                    # fault injection: stored bits seen flipped by the n-th read burst (C15 on the core)
                    if self.nreturned < len(self.read_xor):
                        word ^= self.read_xor[self.nreturned]
                    self.nreturned += 1
                sim.ev("dram", "rdata", key, word)
                m = (1 << self.dbits) - 1
                for p, ph in enumerate(self.ph):
                    sim.poke(ph["rddata"], (word >> (p * self.dbits)) & m)
                    sim.poke(ph["rddata_valid"], 1)
                self.rv = 1
            elif self.rv:
                for ph in self.ph:
                    sim.poke(ph["rddata_valid"], 0)
                self.rv = 0
        else:
            # passive: another DRAM model drives the bus; compare what it returns at the advertised read latency
            # (the write captured above cannot concern a read returning now: rl > wl is not assumed here, the value
            # expected is the one an independent DRAM holds at the time of the read command plus earlier writes)
            valid = [S[ph["rddata_valid"]] for ph in self.ph]
            if self.rq and self.rq[0][0] + 1 <= c:
                _, key, snap, _e = self.rq.pop(0)
                word = self.read_key(key) if snap is None else snap
                got = 0
                for p, ph in enumerate(self.ph):
                    got |= S[ph["rddata"]] << (p * self.dbits)
                self.ncompared += 1
                if not any(valid):
                    viol.add("c19.rddata_valid_missing", "model did not assert rddata_valid %d cycles after the read of %s" % (self.rl, (key,)))
                elif got != word:
                    viol.add("c19.read_data", "model returned 0x%x for rank/bank/row/col %s, independent reference holds 0x%x" % (got, key, word))
            elif any(valid):
                viol.add("c19.rddata_valid_spurious", "model asserts rddata_valid with no read due at this cycle")
        self.cycle = c + 1

    def _command(self, kind, r, bank, addr, t, p, c, first):
        viol = self.viol
        op = self.open[r]
        sim = self.sim
        tz = self.t_zqc[r]
        if tz is not None:
            self._need("tZQCS", t - tz, "ZQCS -> %s rank %d" % (kind, r))
        if self.on_cmd and first:
            self.on_cmd(kind, r, bank, addr, t)
        if kind == ACT:
            sim.ev("dram", "ACT", r, bank, addr, t)
            if op[bank] is not None:
                viol.add("c02.act_on_open_bank", "ACT rank %d bank %d row 0x%x while row 0x%x is open" % (r, bank, addr, op[bank]))
            op[bank] = addr
            tp = self.t_pre[r][bank]
            if tp is not None:
                self._need("tRP", t - tp, "PRE -> ACT rank %d bank %d" % (r, bank))
            ta = self.t_act[r][bank]
            if ta is not None and self.ds is not None and self.ds.get("tRAS") and self.ds.get("tRP"):
                # tRC = tRAS + tRP as the library defines it
                a, b = self.ds.get("tRAS"), self.ds.get("tRP")
                ck, ns = a[0] + b[0], a[1] + b[1]
                sp = t - ta
                if sp < ck or sp * self.period_ps < ns * 1000.0 * self.nph * (1 - 1e-9) - 1e-6:
                    viol.add("c03.tRC", "tRC: ACT -> ACT rank %d bank %d spaced %d clocks = %.3f ns, need %s ck / %s ns"
                             % (r, bank, sp, sp * self.period_ps / self.nph / 1000.0, ck, ns))
            acts = self.acts[r]
            if acts:
                self._need("tRRD", t - acts[-1], "ACT -> ACT rank %d (bank %d)" % (r, bank))
            if len(acts) >= 4:
                self._need("tFAW", t - acts[-4], "5th ACT in window, rank %d" % r)
            acts.append(t)
            if len(acts) > 4:
                del acts[0]
            tr = self.t_ref[r]
            if tr is not None:
                self._need("tRFC", t - tr, "REF -> ACT rank %d" % r)
            self.t_act[r][bank] = t
        elif kind == PRE:
            allb = (addr >> 10) & 1
            sim.ev("dram", "PRE", r, bank, allb, t)
            banks = range(self.nbanks) if allb else [bank]
            if allb and first:
                self.preas.append(t)
            for b in banks:
                ta = self.t_act[r][b]
                if op[b] is not None:
                    if ta is not None:
                        self._need("tRAS", t - ta, "ACT -> PRE%s rank %d bank %d" % ("A" if allb else "", r, b))
                    tw = self.t_wr[r][b]
                    if tw is not None and (ta is None or tw > ta):
                        self._need("tWR", t - tw, "WR -> PRE%s rank %d bank %d" % ("A" if allb else "", r, b),
                                   extra_ck=self.WL + self.burst_ck)
                    op[b] = None
                    self.t_pre[r][b] = t
                # else: precharging a precharged bank is a legal no-op; an auto-precharge still in progress
                # is covered by the effective precharge time already recorded
        elif kind == REF:
            sim.ev("dram", "REF", r, t)
            for b in range(self.nbanks):
                if op[b] is not None:
                    viol.add("c02.ref_with_open_bank", "REF on rank %d while bank %d has row 0x%x open" % (r, b, op[b]))
                    break
            for b in range(self.nbanks):
                tp = self.t_pre[r][b]
                if tp is not None:
                    self._need("tRP", t - tp, "PRE -> REF rank %d bank %d" % (r, b))
            tr = self.t_ref[r]
            if tr is not None:
                self._need("tRFC", t - tr, "REF -> REF rank %d" % r)
            self.t_ref[r] = t
            if first:
                self.refs.append(c)
        elif kind == ZQC:
            sim.ev("dram", "ZQC", r, t)
            for b in range(self.nbanks):
                if op[b] is not None:
                    viol.add("c02.zqc_with_open_bank", "ZQC on rank %d while bank %d is open" % (r, b))
                    break
            for b in range(self.nbanks):
                tp = self.t_pre[r][b]
                if tp is not None:
                    self._need("tRP", t - tp, "PRE -> ZQC rank %d bank %d" % (r, b))
            tr = self.t_ref[r]
            if tr is not None:
                self._need("tRFC", t - tr, "REF -> ZQC rank %d" % r)
            self.t_zqc[r] = t
            if first:
                self.zqcs.append(c)
        elif kind == MRS:
            viol.add("c02.unexpected_mrs", "mode-register-set command from the controller in hardware mode")
        else:  # RD / WR
            ap = (addr >> 10) & 1
            col = addr & ~(1 << 10)
            colkey = col
            if self.colbits > 10:
                colkey = (col & 0x3FF) | ((col >> 11) << 10)
            sim.ev("dram", kind, r, bank, addr, t)
            row = op[bank]
            if row is None:
                viol.add("c02.col_on_closed_bank", "%s rank %d bank %d col 0x%x while the bank is precharged" % (kind, r, bank, col))
            if col & ((1 << self.align) - 1):
                viol.add("c06.col_unaligned", "%s column 0x%x not aligned to the burst length" % (kind, col))
            if colkey >> self.colbits:
                viol.add("c06.col_range", "%s column 0x%x exceeds %d column bits" % (kind, col, self.colbits))
            ta = self.t_act[r][bank]
            if ta is not None and row is not None:
                self._need("tRCD", t - ta, "ACT -> %s rank %d bank %d" % (kind, r, bank))
            # tCCD: CAS-to-CAS of the same kind (RD->WR / WR->RD have their own rules: tWTR is checked, the
            # read-to-write turnaround cannot be taken from the library entry)
            tc = self.t_col_kind[r].get(kind)
            if tc is not None:
                self._need("tCCD", t - tc, "%s -> %s rank %d" % (kind, kind, r))
            self.t_col_kind[r][kind] = t
            if kind == RD:
                tw = self.t_wr_rank[r]
                if tw is not None:
                    self._need("tWTR", t - tw, "WR -> RD rank %d" % r, extra_ck=self.WL + self.burst_ck)
            self.t_col[r] = t
            # link to the request accepted at the crossbar
            q = self.reqq.get((r, bank))
            if q is not None:
                if not q:
                    viol.add("c02.col_without_request", "%s rank %d bank %d col 0x%x with no accepted request pending for that bank" % (kind, r, bank, col))
                else:
                    we, rrow, rcol, tag = q.pop(0)
                    if we != (kind == WR):
                        viol.add("c02.col_direction", "%s issued for a %s request (%s)" % (kind, "write" if we else "read", tag))
                    if row is not None and row != rrow:
                        viol.add("c02.row_mismatch", "%s rank %d bank %d: open row 0x%x, request %s addressed row 0x%x" % (kind, r, bank, row, tag, rrow))
                    if col != rcol:
                        viol.add("c06.col_mismatch", "%s rank %d bank %d: column 0x%x on the bus, request %s addressed column 0x%x" % (kind, r, bank, col, tag, rcol))
            key = (r, bank, row if row is not None else -1, colkey)
            if kind == WR:
                self.t_wr[r][bank] = t
                self.t_wr_rank[r] = t
                self.wq.append((c + self.wl, key, c))
            else:
                self.t_rd[r][bank] = t
                if first:
                    # value resolved at return time (earlier writes have landed by then: rl > wl);
                    # later writes are kept out by the snapshot taken when their data lands
                    self.rq.append([c + self.rl - 1, key, None, c])
            if ap:
                self.nauto += 1
                # auto-precharge: bank closes; effective precharge start
                eff = t
                if ta is not None and self.ds is not None and self.ds.get("tRAS"):
                    ck, ns = self.ds.get("tRAS")
                    need = max(ck, math.ceil(ns * 1000.0 * self.nph / self.period_ps - 1e-9))
                    eff = max(eff, ta + need)
                if kind == WR and self.ds is not None and self.ds.get("tWR"):
                    ck, ns = self.ds.get("tWR")
                    need = max(ck, math.ceil(ns * 1000.0 * self.nph / self.period_ps - 1e-9))
                    eff = max(eff, t + self.WL + self.burst_ck + need)
                op[bank] = None
                self.t_pre[r][bank] = eff
