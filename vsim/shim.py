"""Harness-side shims for the pinned migen 0.9.2 / litex 2024.12 on Python 3.12 (DESIGN.md §2.4).

Nothing on disk is modified; only the imported library objects of this process are patched.
"""
import dis

_applied = False
_cache = {}


def _get_var_name(frame):
    code = frame.f_code
    lasti = frame.f_lasti
    ent = _cache.get(code)
    if ent is None:
        ins = [(i.offset, i.opname, i.argval) for i in dis.get_instructions(code)]
        ent = _cache[code] = (ins, {o: n for n, (o, _, _) in enumerate(ins)})
    ins, pos = ent
    k = pos.get(lasti)
    if k is None or not ins[k][1].startswith("CALL"):
        return None
    for _, opname, argval in ins[k + 1:]:
        if opname == "CACHE":
            continue
        if opname in ("STORE_NAME", "STORE_ATTR", "STORE_FAST", "STORE_DEREF", "STORE_GLOBAL"):
            return argval
        if opname in ("LOAD_GLOBAL", "LOAD_ATTR", "LOAD_FAST", "LOAD_DEREF", "COPY", "BUILD_LIST",
                        "LOAD_FAST_CHECK", "PUSH_NULL", "LOAD_NAME"):
            continue
        return None
    return None


def apply():
    global _applied
    if _applied:
        return
    _applied = True
    import migen.fhdl.tracer as tr
    tr.get_var_name = _get_var_name
    # Signal names are irrelevant for simulation; walking the Python stack for every Signal() is a third of the
    # DUT build time.  (CSR/AutoCSR naming uses get_obj_var_name/get_var_name, which stay functional.)
    tr.trace_back = lambda varname=None: [("s", 0)] if varname is None else [(varname, 0)]
    import litex.soc.interconnect.csr as csr
    _orig = csr.CSR.__init__

    def _init(self, *a, **k):
        _orig(self, *a, **k)
        if not hasattr(self, "wr_stb"):
            self.wr_stb = self.re
            self.rd_stb = self.we
    csr.CSR.__init__ = _init


def reset_tracer():
    """migen's tracer keeps every object that ever created a Signal in process-global lists (linear
    search per Signal, unbounded growth).  They only influence generated signal *names*; clearing them
    before each DUT build keeps runs independent of what the worker process built before."""
    import migen.fhdl.tracer as tr
    tr.classname_to_objs.clear()
    tr.name_to_idx.clear()
