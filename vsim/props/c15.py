"""C15 — ECC port corrects any single and flags any double bit error (fault enumeration).

Real code: litedram.frontend.ecc.LiteDRAMNativePortECC (per-lane litex ECCEncoder/ECCDecoder, counters, we_error) between a
native master and the NativeMemSlave stub whose stored codewords are corrupted between the write and the read.
For every sampled data word: all single-bit flip positions of every lane (incl. the overall parity bit and padding bits),
pairs of positions (all pairs in the thorough tier), and flips spread over several lanes.
"""
from math import ceil

from migen import *

from litex.soc.cores.ecc import compute_m_n

from litedram.common import LiteDRAMNativePort
from litedram.frontend.ecc import LiteDRAMNativePortECC

from ..engine import Sim
from ..agents import NativeMemSlave, Violations, word_of, Pattern
from .c07 import gen_pattern, gen_extra

ID = "C15"
LEVEL = "fault_enumeration"
TIERS = {"quick": {"runs": 32}, "thorough": {"runs": 240}}
RULE = ("one case = one (configuration, data word, set of flipped stored bits) read event; per run one configuration (lane width 8/16/32/64, "
        "lanes 1..8, read stalls, memory timing) and a few data words, for each: no flip, every single stored bit of every lane, pairs of bits "
        "of one lane (all pairs in the thorough tier for lanes up to 32 data bits, 1000 sampled pairs for 64-bit lanes; sampled in quick), flips in several lanes; plus full and partial byte-enable writes; "
        "evaluations counts read events; non-trivial = event with >= 1 flipped bit; distinct = distinct (configuration, word, flip set)")
ASSUMPTIONS = [
    "stored codeword = the word the port wrote to port_to; flips are XORed into the stub memory after the write data was taken and before the read command",
    "exact counter increments with an always-accepting master, >= 1 under read stalls (the flags are level signals while the word waits)",
    "only full-width writes are data-checked (documented limitation: byte enable granularity of the DRAM data width)",
    "runs with several reads in flight and read stalls use a memory side that honours rdata.ready (the crossbar itself cannot be stalled)",
]
REAL = ["litedram.frontend.ecc.LiteDRAMNativePortECC / ECCW / ECCR", "litex.soc.cores.ecc ECCEncoder/ECCDecoder",
        "every fourth configuration: the complete LiteDRAMCore behind the ECC port (stored width = native port width, padded lanes)"]
STUB = ["native master", "NativeMemSlave with bit-flip injection", "core variant: DramRef whose n-th returned read burst is XORed with the flip mask"]
SHRINK = {"lists": ["events", "extra", "cmd_ready", "rready"], "zero": []}
LEVEL_TEXT = ("Fault enumeration: for each sampled data word the flip space of the stored codeword is enumerated (all single positions of every lane; "
              "all pairs of a lane in the thorough tier) on the real ECC port, with per-event SECDED rules on returned data, sec/ded counters and sticky "
              "flags, and the granularity-error rule for writes. Exhaustive in the flip position(s), sampled in data words and timing.")
LEVEL_NOTE = "Trusted: compiled evaluator, NativeMemSlave, the lane layout (lane i occupies bits [i*w, (i+1)*w) of the stored word, parity = bit 0)."


def geometry(k, bc):
    m, n = compute_m_n(k)
    cw = n + 1
    wto = ceil(cw * bc / 8) * 8
    while wto % bc:
        wto += 8
    return cw, wto, wto // bc


class FlipMem(NativeMemSlave):
    """NativeMemSlave whose k-th returned read word is XORed with the k-th flip mask (stored-bit corruption seen by that read)."""

    def __init__(self, *a, **kw):
        NativeMemSlave.__init__(self, *a, **kw)
        self.masks = []
        self.nread = 0
        self.in_read = False

    def read_word(self, a):
        v = NativeMemSlave.read_word(self, a)
        if self.in_read:
            m = self.masks[self.nread] if self.nread < len(self.masks) else 0
            self.nread += 1
            return v ^ m
        return v

    def __call__(self, sim):
        # read_word is used both for read-modify of writes and for returned reads; flag the latter
        if self.rpipe and self.rpipe[0][0] <= self.cyc:
            self.in_read = True
            if self.rpipe[0][2] is not None:           # snapshot taken earlier: apply the mask here
                m = self.masks[self.nread] if self.nread < len(self.masks) else 0
                self.rpipe[0][2] ^= m
                self.nread += 1
                self.in_read = False
        NativeMemSlave.__call__(self, sim)
        self.in_read = False


class CoreFlipMem:
    """The real core + DramRef as the memory behind the ECC port: the n-th read burst returned by the DRAM is XORed with masks[n]."""

    def __init__(self, dram):
        self.dram = dram
        self.masks = dram.read_xor = []

    def idle(self):
        return not self.dram.wq and not self.dram.rq

    def __call__(self, sim):
        pass


def run(scn):
    from ..agents import NativeMaster
    d = scn["dut"]
    k, bc = d["k"], d["bc"]
    cw, wto, lane_w = geometry(k, bc)
    wfrom = k * bc
    m = scn["mem"]
    core = scn.get("core")
    if core:
        # the ECC port sits on a port of the complete core (stored width = native port width, lanes padded), DRAM = DramRef
        from ..corebench import core_host
        box = {}

        def attach(top, ports):
            pt_ = ports[0]
            pf_ = LiteDRAMNativePort("both", pt_.address_width, wfrom)
            top.submodules.ecc = box["dut"] = LiteDRAMNativePortECC(pf_, pt_, burst_cycles=bc, with_we_error_detection=True)
            box["pf"] = pf_
        tb, sim, viol, dram = core_host(core, Violations, attach)
        dut, pf = box["dut"], box["pf"]
        wto = tb.ports[0].data_width
        lane_w = wto // bc
        assert wto == d["wto"] and cw * bc <= wto
        mem = CoreFlipMem(dram)
    else:
        pf = LiteDRAMNativePort("both", 16, wfrom)
        pt = LiteDRAMNativePort("both", 16, wto)
        dut = LiteDRAMNativePortECC(pf, pt, burst_cycles=bc, with_we_error_detection=True)
        sim = Sim(dut, {"sys": 10000})
        viol = Violations(sim)
        mem = FlipMem(sim, pt, cmd_ready=m.get("cmd_ready"), max_out=m.get("max_out", 8), wl1=m.get("wl1", 1), rl1=m.get("rl1", 3),
                      extra=m.get("extra"), viol=None, honour_rready=scn.get("pipeline", 1) > 1)
    ix = sim.index
    I = {n_: ix(s_) for n_, s_ in (("sec", dut.sec_errors.status), ("ded", dut.ded_errors.status), ("wee", dut.we_errors.status),
                                   ("secd", dut.sec_detected), ("dedd", dut.ded_detected))}
    events = scn["events"]
    nbf = wfrom // 8
    fullwe = (1 << nbf) - 1
    stalls = bool(scn.get("rready"))
    S = sim.S
    stats = {"events": 0, "clean_reads": 0, "single_flips": 0, "parity_bit_flips": 0, "padding_flips": 0, "double_flips": 0, "multi_lane": 0,
             "full_writes": 0, "partial_writes": 0, "read_stall_events": 0, "batch_reads": 0}
    # ---- op list
    ops = []
    cur = None
    addr = 5
    oid = 1
    for ei, ev in enumerate(events):
        if ev.get("kind") == "write":
            ops.append({"id": ev["wid"], "we": 1, "addr": ev["addr"], "sel": ev.get("we", fullwe), "delay": 4, "sync": 1, "ev": ei})
            continue
        if cur != ev["wid"]:
            ops.append({"id": ev["wid"], "we": 1, "addr": addr, "delay": 4, "sync": 1, "ev": None})
            cur = ev["wid"]
        x = 0
        for b_ in ev.get("flips", []):
            x ^= 1 << b_
        mem.masks.append(x)
        if ev.get("batch"):
            # pipelined reads under read back-pressure: only totals are checked for these
            ops.append({"id": 0, "we": 0, "addr": addr, "delay": 0, "ev": ei, "batch": 1,
                        "sync": 1 if not (ops and ops[-1].get("batch")) else 0})
        else:
            ops.append({"id": 0, "we": 0, "addr": addr, "delay": 4, "sync": 1, "ev": ei})
    snaps = []      # (op, sec, ded, wee, secd, dedd) sampled when each command is accepted (previous op fully retired)
    rdata = []

    def on_cmd(op):
        snaps.append((op, S[I["sec"]], S[I["ded"]], S[I["wee"]]))

    def on_rdata(dta):
        rdata.append((dta, S[I["secd"]], S[I["dedd"]]))
    mas = NativeMaster(sim, pf, ops, on_rdata=on_rdata, rready=scn.get("rready"), max_reads=scn.get("pipeline", 1))
    mas.on_offer = on_cmd      # counters are sampled when an op is first offered: everything before it has retired (sync ops)
    # one access at a time: a write is retired before the next command (the ECC port forwards commands combinationally)
    sim.add_agent("sys", mas)
    sim.add_agent("sys", mem)
    cap = 400 + len(ops) * (30 + max(m.get("extra") or [0]) + m.get("rl1", 3) + sum(a + b for a, b in (scn.get("rready") or []))
                            + sum(a + b for a, b in (m.get("cmd_ready") or [])))
    if core:
        cap = 2000 + len(ops) * 120
    cyc = 0
    quiet = 0
    # NativeMaster does not wait for a write to land before the next command; keep one write outstanding at most
    while cyc < cap:
        sim.step()
        cyc += 1
        if mas.idle() and mem.idle():
            quiet += 1
            if quiet > 12:
                break
        else:
            quiet = 0
    final = (None, S[I["sec"]], S[I["ded"]], S[I["wee"]])
    if not (mas.idle() and mem.idle()):
        viol.add("hang", "ECC port sequence did not complete within %d cycles (%d/%d commands)" % (cap, mas.ncmd, len(ops)))
    else:
        snaps.append(final)
        ri = 0
        batch = {"sec": 0, "ded": 0, "n": 0}
        for j in range(len(snaps) - 1):
            op, s0, d0, w0 = snaps[j]
            _, s1, d1, w1 = snaps[j + 1]
            if op["we"]:
                if op.get("ev") is None:
                    if w1 != w0:
                        viol.add("we_error_spurious", "full write (all byte enables set) counted as %d granularity error(s)" % (w1 - w0))
                    continue
                we = op.get("sel", fullwe)
                lanes_partial = any(((we >> (i * k // 8)) & ((1 << (k // 8)) - 1)) != (1 << (k // 8)) - 1 for i in range(bc))
                if lanes_partial:
                    stats["partial_writes"] += 1
                    if w1 == w0:
                        viol.add("we_error_missing", "write with byte enables 0x%x leaves an ECC word partially enabled but no granularity error was counted" % we)
                else:
                    stats["full_writes"] += 1
                    if w1 != w0:
                        viol.add("we_error_spurious", "full write (all byte enables set) counted as %d granularity error(s)" % (w1 - w0))
                continue
            ev = events[op["ev"]]
            got, secd, dedd = rdata[ri]
            ri += 1
            if op.get("batch"):
                # totals over the whole batch (first batch op is a sync op: counters sampled at its offer are exact)
                if "b0" not in batch:
                    batch["b0"] = (s0, d0)
                fl = ev.get("flips", [])
                lanes = {}
                for b_ in fl:
                    lanes.setdefault(b_ // lane_w, []).append(b_ % lane_w)
                if any(len(p_) == 1 and p_[0] != 0 and p_[0] < cw for p_ in lanes.values()):
                    batch["sec"] += 1
                if any(len(p_) == 2 for p_ in lanes.values()):
                    batch["ded"] += 1
                elif got != word_of(ev["wid"], nbf):
                    viol.add("data_not_corrected", "pipelined read of word %d flips %s returned 0x%x" % (ev["wid"], fl, got))
                batch["n"] += 1
                stats["batch_reads"] += 1
                continue
            wid = ev["wid"]
            data = word_of(wid, nbf)
            flips = ev.get("flips", [])
            stats["events"] += 1
            per_lane = {}
            for b_ in set(b_ for b_ in flips if flips.count(b_) % 2):
                lane, pos = divmod(b_, lane_w)
                if pos >= cw:
                    stats["padding_flips"] += 1
                    continue
                per_lane.setdefault(lane, []).append(pos)
            exp_sec = exp_ded = 0
            data_ok = True
            for lane, pos in per_lane.items():
                if len(pos) == 1:
                    if pos[0] == 0:
                        stats["parity_bit_flips"] += 1
                    else:
                        exp_sec = 1
                elif len(pos) == 2:
                    exp_ded = 1
                    data_ok = False
                else:
                    data_ok = None
            if not per_lane:
                stats["clean_reads"] += 1
            elif len(per_lane) > 1:
                stats["multi_lane"] += 1
            if any(len(p) == 1 for p in per_lane.values()):
                stats["single_flips"] += 1
            if any(len(p) == 2 for p in per_lane.values()):
                stats["double_flips"] += 1
            if data_ok is None:
                continue
            what = "word %d flips %s (lane: positions %s)" % (wid, flips, per_lane)
            if data_ok and got != data:
                viol.add("data_not_corrected", "%s: read returned 0x%x, written 0x%x" % (what, got, data))
            ds, dd = s1 - s0, d1 - d0
            if exp_ded:
                if dd < 1:
                    viol.add("double_error_not_flagged", "%s: uncorrectable-error counter did not move (sec +%d, ded +%d)" % (what, ds, dd))
            elif dd:
                viol.add("false_uncorrectable", "%s: reported as uncorrectable (ded +%d)" % (what, dd))
            if exp_sec:
                if ds < 1:
                    viol.add("single_error_not_counted", "%s: corrected-error counter did not move" % what)
            elif ds and not exp_ded:
                viol.add("false_corrected", "%s: reported as corrected (sec +%d) although no data/check bit was flipped" % (what, ds))
            elif ds and exp_ded and not any(len(p) == 1 and p[0] != 0 for p in per_lane.values()):
                viol.add("double_reported_corrected", "%s: double error also counted as corrected (sec +%d)" % (what, ds))
            if not stalls:
                if exp_sec and ds != 1:
                    viol.add("sec_count", "%s: corrected-error counter moved by %d for one read" % (what, ds))
                if exp_ded and dd != 1:
                    viol.add("ded_count", "%s: uncorrectable-error counter moved by %d for one read" % (what, dd))
        if batch["n"]:
            ds, dd = final[1] - batch["b0"][0], final[2] - batch["b0"][1]
            if ds < batch["sec"]:
                viol.add("single_error_not_counted", "%d pipelined reads with a correctable flip under read back-pressure, corrected-error counter moved by %d" % (batch["sec"], ds))
            if dd < batch["ded"]:
                viol.add("double_error_not_flagged", "%d pipelined reads with a double flip under read back-pressure, uncorrectable-error counter moved by %d" % (batch["ded"], dd))
        if (final[1] > 0) != bool(S[I["secd"]]):
            viol.add("sec_flag", "sticky sec_detected flag is %d with %d corrected errors counted" % (S[I["secd"]], final[1]))
        if (final[2] > 0) != bool(S[I["dedd"]]):
            viol.add("ded_flag", "sticky ded_detected flag is %d with %d uncorrectable errors counted" % (S[I["dedd"]], final[2]))
    if stalls:
        stats["read_stall_events"] = stats["events"]
    keys = set()
    for ev in events:
        if ev.get("kind") != "write" and ev.get("flips"):
            keys.add((ev["wid"], tuple(sorted(ev["flips"]))))
    return {"violations": viol.v, "stats": stats, "cycles": cyc, "sim_ps": sim.now, "digest": sim.digest(),
            "nontrivial": stats["events"] >= 2, "evaluations": max(1, stats["events"]), "distinct_keys": len(keys),
            "states": ["k%d bc%d%s" % (k, bc, " core" if core else "")],
            "summary": {"k": k, "lanes": bc, "codeword_bits": cw, "stored_width": wto, "events": stats["events"], "cycles": cyc,
                        "variant": "core" if core else "stub"}}


def gen(rng, tier, index):
    k = [8, 16, 32, 64][index % 4]
    bc = rng.choice([1, 2, 4, 8, 8]) if k <= 32 else rng.choice([1, 2, 4, 8])
    cw, wto, lane_w = geometry(k, bc)
    core = None
    if (index // 4) % 4 == 3:
        # every fourth configuration: the ECC port on the complete core; the stored width is the core's native port width
        from .. import coregen
        for _ in range(40):
            core_, info = coregen.gen_core(rng, nports=1, nranks=1, refresh=rng.random() < 0.7)
            W = info["data_bytes"] * 8
            fits = [b for b in (1, 2, 4, 8) if cw * b <= W and W % b == 0 and (k * b) % 8 == 0]
            if fits:
                core, bc = core_, rng.choice(fits)
                wto, lane_w = W, W // bc
                break
    events = []
    nwords = 2 if tier == "quick" else 3
    wid = 1 + 1000 * index
    # byte-enable events first
    nbf = k * bc // 8
    for _ in range(4):
        we = rng.choice([(1 << nbf) - 1, (1 << nbf) - 1, rng.getrandbits(nbf), ((1 << nbf) - 1) ^ (1 << rng.randrange(nbf))])
        events.append({"kind": "write", "addr": 40 + rng.randrange(8), "wid": wid, "we": we})
        wid += 1
    for w in range(nwords):
        events.append({"wid": wid, "flips": []})
        lanes = list(range(bc))
        # all single positions of every lane (incl. padding bits of the lane slot)
        for lane in lanes:
            for pos in range(lane_w):
                events.append({"wid": wid, "flips": [lane * lane_w + pos]})
        # pairs: all pairs of one lane (thorough) or a sample (quick)
        lane = rng.choice(lanes)
        if tier == "thorough" and w == 0 and cw <= 39:     # 64-bit lanes (72-bit codewords, 2556 pairs): sampled below, 1000 pairs
            for a in range(cw):
                for b in range(a + 1, cw):
                    events.append({"wid": wid, "flips": [lane * lane_w + a, lane * lane_w + b]})
        else:
            for _ in range(120 if tier == "quick" else (1000 if cw > 39 and w == 0 else 400)):
                ln = rng.choice(lanes)
                a, b = rng.sample(range(cw), 2)
                events.append({"wid": wid, "flips": [ln * lane_w + a, ln * lane_w + b]})
            for a in range(1, cw):       # every pair that includes the parity bit
                events.append({"wid": wid, "flips": [lane * lane_w, lane * lane_w + a]})
        # flips in several lanes
        if bc > 1:
            for _ in range(30):
                l1, l2 = rng.sample(lanes, 2)
                f = [l1 * lane_w + rng.randrange(cw)]
                f += [l2 * lane_w + p for p in rng.sample(range(cw), rng.choice([1, 2]))]
                events.append({"wid": wid, "flips": f})
        wid += 1
    # pipelined reads of the last word with flips here and there (totals checked; meaningful with read stalls)
    for _ in range(40):
        r = rng.random()
        ln = rng.randrange(bc)
        if r < 0.5:
            f = []
        elif r < 0.8:
            f = [ln * lane_w + rng.randrange(1, cw)]
        else:
            f = [ln * lane_w + p_ for p_ in rng.sample(range(cw), 2)]
        events.append({"wid": wid - 1, "flips": f, "batch": 1})
    wl1 = rng.randint(1, 6)
    mem = {"cmd_ready": gen_pattern(rng, rng.choice(["none", "light"])), "max_out": 8, "wl1": wl1, "rl1": rng.randint(wl1 + 1, 10),
           "extra": [rng.choice([0, 0, 1, 3]) for _ in range(rng.randint(1, 4))]}
    scn = {"dut": {"k": k, "bc": bc}, "events": events, "mem": mem,
           "rready": gen_pattern(rng, rng.choice(["light", "heavy"])) if rng.random() < 0.5 else [], "pipeline": rng.choice([1, 2, 4])}
    if core:
        # the crossbar cannot be stalled: the master always accepts read data; fewer events (the core is ~20x slower to simulate)
        scn["core"], scn["dut"]["wto"], scn["rready"] = core, wto, []
        keep = [e for e in events if e.get("kind") == "write"]
        rest = [e for e in events if e.get("kind") != "write"]
        singles = [e for e in rest if len(e.get("flips", [])) <= 1 and not e.get("batch")]
        others = [e for e in rest if len(e.get("flips", [])) > 1 and not e.get("batch")]
        batch = [e for e in rest if e.get("batch")]
        lim = 160 if tier == "quick" else 500
        if len(singles) > lim:
            singles = sorted(rng.sample(singles, lim), key=lambda e: (e["wid"], e["flips"]))
        scn["events"] = keep + sorted(singles + rng.sample(others, min(len(others), lim // 2)), key=lambda e: e["wid"]) + batch
    return scn
