"""C03 — datasheet timing minimums are respected on the DRAM bus."""
from ..corebench import run_core
from .. import coregen
from . import _corecommon as cc
from ._corecommon import LEVEL, REAL, STUB, SHRINK, LEVEL_NOTE, simplify  # noqa

ID = "C03"
TIERS = {"quick": {"runs": 240}, "thorough": {"runs": 6000}}
WANT = ("c03",)
RULE = ("one case = one seeded whole-core scenario with a library module (speedgrade, clock) or a synthetic datasheet entry (half of them "
        "constructed backwards from cycle counts so the conversion leaves no slack; large tRAS/tWR relative to tRCD), traffic biased to row "
        "misses, direction flips and activates next to refresh; every command pair on the DFI bus is measured in DRAM clocks and ns against the "
        "raw datasheet tables; non-trivial = >= 2 commands; distinct = distinct event-log digest")
ASSUMPTIONS = cc.COMMON_ASSUMPTIONS + [
    "WL = 0 (SDR), 1 (DDR, LPDDR), cwl otherwise; burst = 1/2/2/2/4/4 clocks; tRC = tRAS + tRP as the library defines it",
    "no requirement where the library entry has no value (tRTP, read-to-write turnaround)"]
LEVEL_TEXT = ("Seeded exploration with the ns->cycle conversion in the loop; oracle = spacing rules written from JEDEC semantics against the raw "
              "datasheet tables of the selected module, never stricter than the entry. Sampling, not proof.")


def gen_ck(rng, tier):
    """Spacings given in DRAM clocks (nCK) that dominate their ns value, command phases of the read and the write phase that differ, and
    traffic that opens rows in many banks while the direction keeps flipping: the phase offset between command slots is what matters."""
    memtype = rng.choice(["DDR", "LPDDR", "DDR2", "DDR3", "DDR3", "DDR4"])
    core, info = coregen.gen_core(rng, lib=False, memtype=memtype, nranks=1, nports=rng.choice([2, 3, 4]), refresh=rng.random() < 0.5)
    nph = info["nphases"]
    m = core["module"]
    k = rng.randint(1, 4)
    m["tech"]["tRRD"] = [k * nph - rng.choice([0, 0, 1]) * (nph > 1), round(rng.uniform(0.1, 0.9) * core["clk_period_ps"] / 1000.0 / nph, 4)]
    if rng.random() < 0.6:
        f = rng.randint(max(4, 3 * k + 1), 24)
        m["speed"]["tFAW"] = [f * nph - rng.choice([0, 0, 1]), round(rng.uniform(0.1, 0.9) * core["clk_period_ps"] / 1000.0, 4)]
    m["tech"]["tWTR"] = [rng.randint(1, 3) * nph, m["tech"]["tWTR"][1]]
    ph = core["phy"]
    if nph > 1:
        ph["rdphase"] = rng.randrange(nph)
        ph["wrphase"] = rng.choice([p_ for p_ in range(nph) if p_ != ph["rdphase"]])
    core["ctrl"]["read_time"] = rng.choice([4, 8, 8, 32])
    core["ctrl"]["write_time"] = rng.choice([4, 8, 8, 16])
    amap = coregen.amap_of(core, info)
    nb = 1 << info["bankbits"]
    nrows = 1 << info["rowbits"]
    hot = [(0, b, rng.randrange(nrows)) for b in range(nb) for _ in range(2)]
    ports = []
    for i in range(len(core["ports"])):
        n = rng.choice([20, 50, 100])
        ports.append({"ops": coregen.gen_port_ops(rng, amap, info, n, hot, style=rng.choice(["rand", "sweep"]), wmix=rng.choice([0.0, 1.0, 0.5, 0.5]),
                                                  delays=rng.choice(["zero", "zero", "small"]), id0=1 + 1000 * i)})
    total = sum(len(p["ops"]) for p in ports)
    return {"core": core, "ports": ports, "kind": "ck", "limits": {"max_cycles": 4000 + 80 * total, "tail": 60}}


def gen(rng, tier, index):
    if rng.random() < 0.15:
        return gen_ck(rng, tier)
    lib = rng.random() < 0.45
    core, info = coregen.gen_core(rng, lib=lib, tight=rng.random() < 0.5, big_ras=rng.random() < 0.6)
    amap = coregen.amap_of(core, info)
    hot = coregen.gen_hot(rng, info, core["nranks"])
    nports = len(core["ports"])
    ports = []
    for i in range(nports):
        n = rng.choice([4, 10, 30, 80, 160]) if nports <= 2 else rng.choice([4, 10, 25, 50])
        style = rng.choice(["pingpong", "pingpong", "sweep", "rand", "hammer", "samerow"])
        delays = rng.choice(["zero", "small", "gaps", "gaps"])
        ports.append({"ops": coregen.gen_port_ops(rng, amap, info, n, hot, style=style, delays=delays, id0=1 + 1000 * i)})
    total = sum(len(p["ops"]) for p in ports)
    delay = sum(o.get("delay", 0) for p in ports for o in p["ops"])
    return {"core": core, "ports": ports, "limits": {"max_cycles": 4000 + 80 * total + delay, "tail": 60}}


def run(scn):
    return run_core(scn, WANT)
