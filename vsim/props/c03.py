"""C03 — datasheet timing minimums are respected on the DRAM bus."""
from ..corebench import run_core
from .. import coregen
from . import _corecommon as cc
from ._corecommon import LEVEL, REAL, STUB, SHRINK, LEVEL_NOTE, simplify  # noqa

ID = "C03"
TIERS = {"quick": {"runs": 240}, "thorough": {"runs": 6000}}
WANT = ("c03",)
RULE = ("one case = one seeded whole-core scenario with a library module (speedgrade, clock) or a synthetic datasheet entry (half of them "
        "constructed backwards from cycle counts so the conversion leaves no slack; large tRAS/tWR relative to tRCD), traffic biased to row "
        "misses, direction flips and activates next to refresh; every command pair on the DFI bus is measured in DRAM clocks and ns against the "
        "raw datasheet tables; non-trivial = >= 2 commands; distinct = distinct event-log digest")
ASSUMPTIONS = cc.COMMON_ASSUMPTIONS + [
    "WL = 0 (SDR), 1 (DDR, LPDDR), cwl otherwise; burst = 1/2/2/2/4/4 clocks; tRC = tRAS + tRP as the library defines it",
    "no requirement where the library entry has no value (tRTP, read-to-write turnaround)"]
LEVEL_TEXT = ("Seeded exploration with the ns->cycle conversion in the loop; oracle = spacing rules written from JEDEC semantics against the raw "
              "datasheet tables of the selected module, never stricter than the entry. Sampling, not proof.")


def gen(rng, tier, index):
    lib = rng.random() < 0.45
    core, info = coregen.gen_core(rng, lib=lib, tight=rng.random() < 0.5, big_ras=rng.random() < 0.6)
    amap = coregen.amap_of(core, info)
    hot = coregen.gen_hot(rng, info, core["nranks"])
    nports = len(core["ports"])
    ports = []
    for i in range(nports):
        n = rng.choice([4, 10, 30, 80, 160]) if nports <= 2 else rng.choice([4, 10, 25, 50])
        style = rng.choice(["pingpong", "pingpong", "sweep", "rand", "hammer", "samerow"])
        delays = rng.choice(["zero", "small", "gaps", "gaps"])
        ports.append({"ops": coregen.gen_port_ops(rng, amap, info, n, hot, style=style, delays=delays, id0=1 + 1000 * i)})
    total = sum(len(p["ops"]) for p in ports)
    delay = sum(o.get("delay", 0) for p in ports for o in p["ops"])
    return {"core": core, "ports": ports, "limits": {"max_cycles": 4000 + 80 * total + delay, "tail": 60}}


def run(scn):
    return run_core(scn, WANT)
