"""C08 — clock-domain-crossing ports preserve commands, data and order.

Real code: litedram.frontend.adapter.LiteDRAMNativePortCDC (litex stream.ClockDomainCrossing / migen AsyncFIFO,
GrayCounter, MultiReg) stand-alone between a NativeMaster in the user clock domain and a NativeMemSlave in
the sys domain; two free-running clocks with arbitrary ratio/phase/jitter; two-outcome metastability model on
the first flop of every synchroniser.
"""
from migen import *

from litedram.common import LiteDRAMNativePort
from litedram.frontend.adapter import LiteDRAMNativePortCDC

from ..engine import Sim
from ..agents import StallCounter, NativeMaster, NativeMemSlave, RefMem, Violations, word_of, StreamMonitor
from .c07 import gen_pattern, gen_extra

ID = "C08"
LEVEL = "exploration"
TIERS = {"quick": {"runs": 600}, "thorough": {"runs": 15000}}
RULE = ("one case = one seeded scenario (user/sys clock periods from 1:8 to 8:1 incl. equal and near-equal, phase, per-edge jitter, FIFO "
        "depths, op list with delays, read back-pressure, memory-side latencies/stalls, metastability decisions); non-trivial = >= 2 commands "
        "crossed; distinct = distinct event-log digest")
ASSUMPTIONS = [
    "master holds each command until accepted, queues write data no later than the command",
    "the controller side cannot be back-pressured on read data, so the master never has more reads outstanding than rdata_depth (LiteDRAM master convention)",
    "memory side = NativeMemSlave (real crossbar's contract: data taken / returned regardless of valid / ready)",
    "metastability = two-outcome model: a synchroniser input bit that changed within the window before (or at) the sampling edge resolves to old or new",
]
REAL = ["litedram.frontend.adapter.LiteDRAMNativePortCDC", "litex stream.ClockDomainCrossing/AsyncFIFO", "migen AsyncFIFO, GrayCounter, MultiReg"]
STUB = ["NativeMaster (user clock domain)", "NativeMemSlave (sys domain)", "clock generators with jitter", "metastability injector"]
SHRINK = {"lists": ["ops", "extra", "cmd_ready", "rready", "jitter", "meta"], "zero": ["delay", "early", "phase"]}
LEVEL_TEXT = ("Seeded exploration of the real CDC port under two independent clocks (ratio, phase, jitter), back-pressure and injected "
              "metastable sampling; oracle = element-wise sequence equality on both sides of the crossing plus reference memory. Sampling, not proof.")
LEVEL_NOTE = "Trusted: compiled evaluator and multi-clock kernel (cross-checked against migen.sim), agents' contracts, the two-outcome CDC fault abstraction."


def run(scn):
    if scn.get("variant") == "core":
        from ..corebench import run_core
        return run_core(scn, ("c08", "c01.final_image", "c01.missing_response", "c05.hang"))
    d = scn["dut"]
    aw, dw = d.get("aw", 16), d["dw"]
    mode = d.get("mode", "both")
    pu = LiteDRAMNativePort(mode, aw, dw, clock_domain="usr")
    ps = LiteDRAMNativePort(mode, aw, dw, clock_domain="sys")
    dut = LiteDRAMNativePortCDC(pu, ps, cmd_depth=d.get("cmd_depth", 4), wdata_depth=d.get("wdata_depth", 16),
                                rdata_depth=d.get("rdata_depth", 16))
    ck = scn["clocks"]
    sim = Sim(dut, {"sys": {"period": ck["sys"]["period"], "phase": ck["sys"].get("phase", 0), "jitter": ck["sys"].get("jitter")},
                    "usr": {"period": ck["usr"]["period"], "phase": ck["usr"].get("phase", 0), "jitter": ck["usr"].get("jitter")}},
              track_multireg=True)
    viol = Violations(sim)
    meta = None
    f = scn.get("faults", {})
    if f.get("meta_window", 0) > 0:
        meta = sim.enable_metastability(f["meta_window"], f.get("meta", [1]))
    nb = dw // 8
    ref = RefMem()
    expect = []
    ucmds, scmds = [], []
    uw, sw = [], []
    sr, ur = [], []
    stats = {"user_cmds": 0, "reads": 0, "writes": 0, "meta_near": 0, "meta_altered": 0, "rready_stall_cycles": 0}

    def on_cmd(op):
        stats["user_cmds"] += 1
        ucmds.append((op["we"], op["addr"]))
        if op["we"]:
            t_cmd[op["id"]] = sim.cycles["usr"]
            stats["writes"] += 1
            ref.write(op["addr"], nb, word_of(op["id"], nb), op.get("sel", (1 << nb) - 1))
        else:
            stats["reads"] += 1
            expect.append((op["id"], op["addr"], ref.read(op["addr"], nb)))
        sim.ev("ucmd", op["id"], op["we"], op["addr"])

    t_cmd = {}
    lead = [0]      # longest time (user cycles) by which a write command entered the crossing before its data did

    def on_wdata(op, data, sel, valid):
        uw.append((data, sel))
        tc = t_cmd.pop(op["id"], None)
        if tc is not None and sim.cycles["usr"] - tc > lead[0]:
            lead[0] = sim.cycles["usr"] - tc

    got = [0]

    def on_rdata(data):
        k = got[0]
        got[0] += 1
        ur.append(data)
        sim.ev("urdata", data)
        if k >= len(expect):
            viol.add("spurious_rdata", "user port returned read word 0x%x with no read outstanding" % data)
            return
        oid, addr, v = expect[k]
        if data != v:
            viol.add("read_data", "read #%d (op %d, addr 0x%x) returned 0x%x, expected 0x%x" % (k, oid, addr, data, v))

    m = scn["mem"]
    ops = scn["master"]["ops"]
    mem = NativeMemSlave(sim, ps, cmd_ready=m.get("cmd_ready"), max_out=m.get("max_out", 8), wl1=m.get("wl1", 1),
                         rl1=m.get("rl1", 3), extra=m.get("extra"), viol=viol, on_cmd=lambda we, a: scmds.append((we, a)))
    mas = NativeMaster(sim, pu, ops, on_cmd=on_cmd, on_rdata=on_rdata, on_wdata=on_wdata,
                       rready=scn["master"].get("rready"), max_reads=d.get("rdata_depth", 16))
    sim.add_agent("usr", mas)
    sim.add_agent("sys", mem)
    sc_r = StallCounter(sim, pu.rdata.valid, pu.rdata.ready, "usr")
    ncmd = len(ops)
    ratio = max(1.0, ck["usr"]["period"] / ck["sys"]["period"])
    stall = sum(b for a, b in (m.get("cmd_ready") or [])) + int(ratio * sum(a + b for a, b in (scn["master"].get("rready") or []))) + 1
    cap = int((600 + sum(o.get("delay", 0) for o in ops) * ratio + ncmd * (8 * ratio + stall + max(m.get("extra") or [0]) + m.get("rl1", 3) + 12)))
    quiet = 0
    need_quiet = int(40 * ratio + 60 + max([b for a, b in (m.get("cmd_ready") or [])] or [0]) + max(m.get("extra") or [0]))
    cyc = sim.cycles
    idle_since = None
    wout = [0, 0]     # current / max number of writes accepted on the user side whose data strobe has not happened yet
    viol.extra = lambda: {"max_writes_outstanding": wout[1], "wdata_depth": d.get("wdata_depth", 16),
                          "cmd_lead_user_cycles": max([lead[0]] + [sim.cycles["usr"] - t_ for t_ in t_cmd.values()])}
    while cyc["sys"] < cap:
        sim.step()
        o = stats["writes"] - mem.nwdone
        if o > wout[1]:
            wout[1] = o
        if mas.idle() and mem.idle():
            if idle_since is None:
                idle_since = cyc["sys"]
            elif cyc["sys"] - idle_since > need_quiet:
                break
        else:
            idle_since = None
    drained = mas.idle() and mem.idle()
    # sequence equality on both sides (element by element, as far as both got)
    for k, (a, b) in enumerate(zip(ucmds, scmds)):
        if a != b:
            viol.add("cmd_sequence", "command #%d: user side accepted (we=%d, addr=0x%x), controller side received (we=%d, addr=0x%x)" % (k, a[0], a[1], b[0], b[1]))
            break
    swl = [(x[2], x[3]) for x in mem.log if x[0] == "w"]
    for k, (a, b) in enumerate(zip(uw, swl)):
        if a != b:
            viol.add("wdata_sequence", "write word #%d: user side gave (0x%x, sel 0x%x), controller side took (0x%x, sel 0x%x)" % (k, a[0], a[1], b[0], b[1]))
            break
    srl = [x[2] for x in mem.log if x[0] == "r"]
    for k, (a, b) in enumerate(zip(srl, ur)):
        if a != b:
            viol.add("rdata_sequence", "read word #%d: controller side returned 0x%x, user side received 0x%x" % (k, a, b))
            break
    if not drained:
        viol.add("hang", "not drained after %d sys cycles: user cmds %d/%d, controller-side cmds %d, write words user/ctrl %d/%d, read words ctrl/user %d/%d"
                 % (cyc["sys"], mas.ncmd, ncmd, len(scmds), len(uw), len(swl), len(srl), len(ur)))
    else:
        if len(ucmds) != len(scmds):
            viol.add("cmd_count", "%d commands accepted on the user side, %d delivered on the controller side" % (len(ucmds), len(scmds)))
        if len(uw) != len(swl):
            viol.add("wdata_count", "%d write words taken on the user side, %d on the controller side" % (len(uw), len(swl)))
        if len(srl) != len(ur):
            viol.add("rdata_count", "%d read words returned by the controller side, %d delivered to the user" % (len(srl), len(ur)))
        for A in sorted(mem.mem):
            if mem.mem[A] != ref.read(A, nb):
                viol.add("final_image", "memory word 0x%x holds 0x%x, reference says 0x%x" % (A, mem.mem[A], ref.read(A, nb)))
                break
    stats["runs_exceeding_wdata_depth"] = 1 if wout[1] > d.get("wdata_depth", 16) else 0
    stats["rready_stall_cycles"] = sc_r.n
    if meta:
        stats["meta_near"] = meta["near"]
        stats["meta_altered"] = meta["altered"]
    return {"violations": viol.v, "stats": stats, "cycles": cyc["sys"] + cyc["usr"], "sim_ps": sim.now, "digest": sim.digest(),
            "nontrivial": len(scmds) >= 2,
            "states": ["ratio %.2f" % (ck["usr"]["period"] / ck["sys"]["period"])],
            "summary": {"usr_period": ck["usr"]["period"], "sys_period": ck["sys"]["period"], "ops": ncmd,
                        "meta": meta and dict(meta)}}


def classify(scn, viol):
    """Known findings.
    cdc-upconv-write-lead: up-converted + clock-crossed port (get_port(data_width < native, clock_domain=...)): the
    up-converter presents a write command 1-2 user cycles before its data, the crossing forwards both independently,
    and with a user clock that is not clearly faster than sys the crossbar strobes the data before it has crossed.
    cdc-write-overrun: more writes in flight behind the crossing than wdata_depth."""
    if scn.get("variant") == "core":
        pc = scn["core"]["ports"][0]
        from ..coregen import BURST
        slow_user = scn.get("clocks", {}).get("usr0", {}).get("period", 0) * 2 > scn["core"]["clk_period_ps"]
        if pc.get("cd", "sys") != "sys" and (viol.get("blind_strobes") or [0])[0] > 0 and viol.get("upconverted") and slow_user:
            return "cdc-upconv-write-lead"
        # cdc-write-overrun on the core: more write commands of the crossed port accepted by the crossbar and not yet strobed than
        # the crossing's write-data FIFO (get_port's default depth 16) can hold, and a strobe that found no data
        if pc.get("cd", "sys") != "sys" and (viol.get("blind_strobes") or [0])[0] > 0 and (viol.get("xbar_writes_in_flight_max") or [0])[0] > 16:
            return "cdc-write-overrun"
        return None
    # the write-data FIFO of the crossing could not take a word whose command it had already forwarded: either more writes in flight than
    # it holds, or (slow user clock) it still *looked* full from the user side because the freed slots had not been synchronised back -
    # seen as a write command entering the crossing at least one user cycle before its data (the master offers both together)
    if viol.get("oracle") in ("wdata_not_valid_at_strobe", "wdata_sequence", "wdata_count", "final_image", "hang", "read_data") \
            and (viol.get("max_writes_outstanding", 0) > viol.get("wdata_depth", 10 ** 9) or viol.get("cmd_lead_user_cycles", 0) >= 1):
        return "cdc-write-overrun"
    return None


def witness(fid):
    if fid != "cdc-write-overrun":
        return None
    ops = [{"id": i + 1, "we": 1, "addr": 100 + i} for i in range(24)]
    return {"property": ID, "seed": 0, "dut": {"aw": 16, "dw": 32, "mode": "write", "cmd_depth": 4, "wdata_depth": 16, "rdata_depth": 16},
            "clocks": {"sys": {"period": 10000, "phase": 0}, "usr": {"period": 43411, "phase": 0}},
            "mem": {"cmd_ready": [], "max_out": 20, "wl1": 2, "rl1": 6, "extra": [120] + [0] * 40}, "master": {"ops": ops}, "faults": {}}


def gen(rng, tier, index):
    if rng.random() < 0.15:
        from .c07 import gen_core_variant
        scn = gen_core_variant(rng, tier, cdc=True)
        if rng.random() < 0.6:
            p = min(scn["core"]["clk_period_ps"], scn["clocks"]["usr0"]["period"])
            scn["faults"] = {"meta_window": rng.choice([p // 4, p // 2 - 1]),
                             "meta": [rng.choice([0, 0xFFFF, rng.getrandbits(6)]) for _ in range(rng.randint(1, 23))]}
        return scn
    sysp = 10000
    kind = rng.choice(["slow", "fast", "equal", "near", "rand"])
    if kind == "slow":
        usrp = sysp * rng.choice([2, 3, 4, 8])
    elif kind == "fast":
        usrp = sysp // rng.choice([2, 4, 5, 8])
    elif kind == "equal":
        usrp = sysp
    elif kind == "near":
        usrp = sysp + rng.choice([-137, -13, -1, 1, 7, 101, 333])
    else:
        usrp = rng.randint(1250, 80000)

    def jit(period):
        k = rng.choice(["none", "none", "small", "saw"])
        if k == "none":
            return None
        amp = period // rng.choice([50, 20, 8])
        if k == "small":
            return [rng.randint(-amp, amp) for _ in range(rng.randint(3, 17))]
        n = rng.randint(8, 40)
        return [int(amp * (2.0 * i / n - 1.0)) for i in range(n)]
    clocks = {"sys": {"period": sysp, "phase": rng.randrange(sysp), "jitter": jit(sysp)},
              "usr": {"period": usrp, "phase": rng.randrange(usrp), "jitter": jit(usrp)}}
    dw = rng.choice([8, 32, 64, 128])
    d = {"aw": 16, "dw": dw, "mode": rng.choice(["both", "both", "write", "read"]),
         "cmd_depth": rng.choice([4, 4, 8]), "wdata_depth": rng.choice([16, 16, 4, 8, 32]), "rdata_depth": rng.choice([16, 16, 4, 8])}
    n = rng.choice([2, 5, 10, 30, 80]) if tier == "quick" else rng.choice([5, 20, 60, 150])
    wmix = {"both": rng.choice([0.0, 0.3, 0.5, 0.7, 1.0]), "write": 1.0, "read": 0.0}[d["mode"]]
    dl = rng.choice(["zero", "zero", "small", "gaps"])
    ops = []
    addrs = [rng.getrandbits(16) for _ in range(rng.choice([1, 2, 4, 16]))]
    for i in range(n):
        we = 1 if rng.random() < wmix else 0
        op = {"id": i + 1, "we": we, "addr": rng.choice(addrs)}
        if we and rng.random() < 0.3:
            op["sel"] = rng.getrandbits(dw // 8)
        if we and rng.random() < 0.15:
            op["early"] = 1
        if dl == "small":
            op["delay"] = rng.choice([0, 0, 1, 2, 3])
        elif dl == "gaps":
            op["delay"] = rng.choice([0, 0, 0, rng.randint(4, 40)])
        ops.append(op)
    wl1 = rng.randint(1, 6)
    mem = {"cmd_ready": gen_pattern(rng), "max_out": rng.randint(3, 24), "wl1": wl1, "rl1": rng.randint(wl1 + 1, 14), "extra": gen_extra(rng)}
    if rng.random() < 0.9:
        # environment keeps the number of writes in flight behind the crossing within wdata_depth (see known finding
        # cdc-write-overrun for what happens otherwise); the remaining runs do not
        d["wdata_depth"] = max(d["wdata_depth"], 2 * d["cmd_depth"])
        mem["max_out"] = max(1, min(mem["max_out"], d["wdata_depth"] - d["cmd_depth"] - 2))
    faults = {}
    if rng.random() < 0.7:
        faults = {"meta_window": rng.choice([min(sysp, usrp) // 4, min(sysp, usrp) // 2 - 1, 500]),
                  "meta": [rng.choice([0, 0xFFFF, rng.getrandbits(6)]) for _ in range(rng.randint(1, 23))]}
    return {"dut": d, "clocks": clocks, "mem": mem, "master": {"ops": ops, "rready": gen_pattern(rng)}, "faults": faults}
