"""C09 — AXI port: protocol-correct responses and memory semantics.

Real code: litedram.frontend.axi.LiteDRAMAXI2Native (W/R paths, arbitration, RMW FSM) with litex's AXIBurst2Beat and
stream FIFOs, between a five-channel AXI master agent and the NativeMemSlave stub (real crossbar's contract).
"""
from migen import *

from litedram.common import LiteDRAMNativePort
from litedram.frontend.axi import LiteDRAMAXIPort, LiteDRAMAXI2Native

from ..engine import Sim
from ..agents import StallCounter, stuck, NativeMemSlave, Violations, word_of, init_byte, StreamDriver, StreamSink
from .c07 import gen_pattern, gen_extra

ID = "C09"
LEVEL = "exploration"
TIERS = {"quick": {"runs": 800}, "thorough": {"runs": 20000}}
RULE = ("one case = one seeded scenario (data width, ID width, buffer depths, base address, RMW on/off; write and read bursts FIXED/INCR/WRAP of "
        "1..64 (thorough: ..256) beats with IDs and strobes; independent valid/ready stall patterns on AW, W, B, AR, R; memory-side latencies and stalls); "
        "non-trivial = >= 2 bursts completed; distinct = distinct event-log digest")
ASSUMPTIONS = [
    "legal AXI4 traffic: full-width beats (size = log2(bytes per beat)), WRAP bursts of 2/4/8/16 beats aligned to the beat size, INCR bursts not crossing 4 KiB",
    "without RMW only full strobes are generated where the native port cannot mask (it can: strobes are passed as byte enables), with RMW any strobes",
    "memory side = NativeMemSlave (real crossbar's contract: data taken / returned regardless of valid / ready, rl > wl)",
    "visibility: a read beat may observe any prefix of the ordered write stream that contains all writes whose B was received before the AR handshake "
    "and no write whose data beat was handed over after the R beat; per address the observed prefix never shrinks",
]
REAL = ["litedram.frontend.axi.LiteDRAMAXI2Native (LiteDRAMAXI2NativeW/R, RMW FSM, arbiter)", "litex AXIBurst2Beat, stream.SyncFIFO/Buffer"]
STUB = ["AXI master agent (AW/W/B/AR/R drivers and sinks)", "NativeMemSlave"]
SHRINK = {"lists": ["writes", "reads", "extra", "cmd_ready", "b_ready", "r_ready"], "zero": ["delay", "wdelay"]}
LEVEL_TEXT = ("Seeded exploration of the real AXI bridge with five independently stalled channels and an adversarial native side; oracle = independent "
              "AXI address equations, B/R protocol rules and a reference memory with the AXI visibility rule. Sampling, not proof.")
LEVEL_NOTE = "Trusted: compiled evaluator, NativeMemSlave contract, the AXI address equations and visibility rule of this module."

FIXED, INCR, WRAP = 0, 1, 2


def beat_addrs(addr, burst, length, nbytes):
    """AXI4 beat addresses (independent of the repo): list of byte addresses, one per beat."""
    n = length + 1
    out = []
    if burst == FIXED:
        return [addr] * n
    aligned = (addr // nbytes) * nbytes
    if burst == INCR:
        for i in range(n):
            out.append(addr if i == 0 else aligned + i * nbytes)
        return out
    total = nbytes * n
    lower = (addr // total) * total
    a = addr
    for i in range(n):
        out.append(a)
        a += nbytes
        if a >= lower + total:
            a = lower
    return out


def run(scn):
    d = scn["dut"]
    dw, idw = d["dw"], d["idw"]
    nb = dw // 8
    ashift = nb.bit_length() - 1
    base = d.get("base", 0)
    naw = d.get("naw", 20)
    axi = LiteDRAMAXIPort(data_width=dw, address_width=32, id_width=idw)
    m = scn["mem"]
    core = scn.get("core")
    if core:
        # variant "core": the bridge sits on a port of the real core with DramRef as DRAM
        from ..corebench import core_host, CorePortView

        def attach(top, ports):
            top.submodules.frontend = LiteDRAMAXI2Native(axi, ports[0], w_buffer_depth=d["wdepth"], r_buffer_depth=d["rdepth"],
                                                         base_address=base, with_read_modify_write=d.get("rmw", False))
        tb, sim, viol, dram = core_host(core, Violations, attach)
        port = tb.ports[0]
        assert port.data_width == dw and tb.amap.aw == naw
        mem = CorePortView(sim, tb, dram, port)
    else:
        port = LiteDRAMNativePort("both", naw, dw)
        dut = LiteDRAMAXI2Native(axi, port, w_buffer_depth=d["wdepth"], r_buffer_depth=d["rdepth"], base_address=base,
                                 with_read_modify_write=d.get("rmw", False))
        sim = Sim(dut, {"sys": 10000})
        viol = Violations(sim)
        mem = NativeMemSlave(sim, port, cmd_ready=m.get("cmd_ready"), max_out=m.get("max_out", 8), wl1=m.get("wl1", 1),
                             rl1=m.get("rl1", 3), extra=m.get("extra"), viol=viol)
    writes, reads = scn["writes"], scn["reads"]
    full = (1 << nb) - 1
    # ---- expected write stream: list of (word address, data, strb, burst index, global beat index)
    wstream = []
    aw_items, w_items = [], []
    for k, w in enumerate(writes):
        addrs = beat_addrs(w["addr"], w["burst"], w["len"], nb)
        aw_items.append({"addr": w["addr"], "burst": w["burst"], "len": w["len"], "size": ashift, "id": w["id"], "delay": w.get("delay", 0)})
        for j, a in enumerate(addrs):
            wid = w["wid0"] + j
            strb = w["strb"][j] if w.get("strb") else full
            wa = ((a - base) >> ashift) & ((1 << naw) - 1)
            wstream.append((wa, word_of(wid, nb), strb, k, len(wstream)))
            w_items.append({"data": word_of(wid, nb), "strb": strb, "last": 1 if j == w["len"] else 0,
                            "delay": (w.get("wdelay") or [0])[j % len(w.get("wdelay") or [0])] if j else w.get("wlead", 0)})
    # per address value history
    hist = {}
    for (wa, data, strb, k, g) in wstream:
        h = hist.setdefault(wa, [])
        prev = h[-1][0] if h else mem.read_word(wa)
        v = prev
        for b in range(nb):
            if (strb >> b) & 1:
                v = (v & ~(0xFF << (8 * b))) | (data & (0xFF << (8 * b)))
        h.append((v, k, g))
    ar_items = []
    rbeats = []       # expected (burst index, word address, last, id) per R beat
    for k, r in enumerate(reads):
        addrs = beat_addrs(r["addr"], r["burst"], r["len"], nb)
        ar_items.append({"addr": r["addr"], "burst": r["burst"], "len": r["len"], "size": ashift, "id": r["id"], "delay": r.get("delay", 0)})
        for j, a in enumerate(addrs):
            rbeats.append((k, ((a - base) >> ashift) & ((1 << naw) - 1), 1 if j == r["len"] else 0, r["id"]))
    nbeats_cum = []
    c = 0
    for w in writes:
        c += w["len"] + 1
        nbeats_cum.append(c)
    st = {"b": 0, "r": 0, "wbeats_given": 0, "b_done_at_ar": []}
    stats = {"write_bursts": len(writes), "read_bursts": len(reads), "write_beats": len(wstream), "read_beats": len(rbeats),
             "partial_strobes": sum(1 for x in wstream if x[2] != full), "wrap_bursts": sum(1 for x in writes + reads if x["burst"] == WRAP),
             "fixed_bursts": sum(1 for x in writes + reads if x["burst"] == FIXED), "rmw_cycles": 0, "b_stall": 0, "r_stall": 0,
             "reads_racing_writes": 0}
    seen_j = {}

    def on_aw(it):
        sim.ev("aw", it["addr"], it["len"], it["id"])

    def on_w(it):
        st["wbeats_given"] += 1

    def on_ar(it):
        st["b_done_at_ar"].append(st["b"])
        sim.ev("ar", it["addr"], it["len"], it["id"])

    def on_b(x):
        k = st["b"]
        st["b"] += 1
        sim.ev("b", x["id"], x["resp"])
        if k >= len(writes):
            viol.add("spurious_b", "write response (id %d) with no write burst outstanding" % x["id"])
            return
        if x["id"] != writes[k]["id"]:
            viol.add("b_id", "write response #%d carries id %d, burst #%d was issued with id %d" % (k, x["id"], k, writes[k]["id"]))
        if x["resp"] != 0:
            viol.add("b_resp", "write response #%d is %d, not OKAY" % (k, x["resp"]))
        if mem.nwdone < nbeats_cum[k]:
            viol.add("b_before_data", "write response #%d issued when only %d of the %d data beats up to this burst had been handed to the memory"
                     % (k, mem.nwdone, nbeats_cum[k]))

    def on_r(x):
        k = st["r"]
        st["r"] += 1
        sim.ev("r", x["id"], x["data"], x["last"])
        if k >= len(rbeats):
            viol.add("spurious_r", "read data beat (id %d) with no read outstanding" % x["id"])
            return
        bi, wa, last, rid = rbeats[k]
        if x["id"] != rid:
            viol.add("r_id", "read beat #%d carries id %d, its burst #%d was issued with id %d" % (k, x["id"], bi, rid))
        if x["last"] != last:
            viol.add("r_last", "read beat #%d of burst #%d has last=%d, expected %d" % (k, bi, x["last"], last))
        if x["resp"] != 0:
            viol.add("r_resp", "read beat #%d resp %d, not OKAY" % (k, x["resp"]))
        # data: some admissible prefix of the write stream
        h = hist.get(wa, [])
        bdone = st["b_done_at_ar"][bi] if bi < len(st["b_done_at_ar"]) else 0
        jmin = sum(1 for (v, wk, g) in h if wk < bdone)
        jmax = sum(1 for (v, wk, g) in h if g < st["wbeats_given"])
        jmin = max(jmin, seen_j.get(wa, 0))
        vals = [mem_init(wa)] + [v for (v, wk, g) in h]
        ok = [j for j in range(jmin, jmax + 1) if vals[j] == x["data"]]
        if jmax > jmin:
            stats["reads_racing_writes"] += 1
        if not ok:
            viol.add("read_data", "read beat #%d (burst #%d, word 0x%x) returned 0x%x; admissible: %s (writes %d..%d of %d to that word)"
                     % (k, bi, wa, x["data"], ", ".join("0x%x" % vals[j] for j in range(jmin, min(jmax, jmin + 3) + 1)), jmin, jmax, len(h)))
        else:
            seen_j[wa] = ok[0]

    def mem_init(wa):
        v = 0
        for b in range(nb):
            v |= init_byte(wa * nb + b) << (8 * b)
        return v

    from ..agents import StateSampler
    sigs = [axi.aw.valid, axi.aw.ready, axi.w.valid, axi.w.ready, axi.b.valid, axi.b.ready, axi.ar.valid, axi.ar.ready, axi.r.valid, axi.r.ready,
            port.cmd.valid, port.cmd.ready, port.cmd.we]
    fe = tb.dut.frontend if core else dut
    if d.get("rmw"):
        sigs.append(fe.write.rmw_fsm.state)
    samp = StateSampler(sim, sigs)
    axf = ["addr", "burst", "len", "size", "id"]
    aw_d = StreamDriver(sim, axi.aw, aw_items, axf, on_xfer=on_aw)
    w_d = StreamDriver(sim, axi.w, w_items, ["data", "strb", "last"], on_xfer=on_w)
    ar_d = StreamDriver(sim, axi.ar, ar_items, axf, on_xfer=on_ar)
    b_s = StreamSink(sim, axi.b, ["id", "resp"], ready=scn.get("b_ready"), on_xfer=on_b)
    r_s = StreamSink(sim, axi.r, ["id", "resp", "data", "last"], ready=scn.get("r_ready"), on_xfer=on_r)
    sc_b, sc_r = StallCounter(sim, axi.b.valid, axi.b.ready), StallCounter(sim, axi.r.valid, axi.r.ready)
    for a in (aw_d, w_d, ar_d, b_s, r_s) + (() if core else (mem,)):
        sim.add_agent("sys", a)
    # native-side conservation: every native write has full byte enables in RMW mode
    nat_w = []
    stall = sum(b for a, b in (m.get("cmd_ready") or [])) + sum(b for a, b in (scn.get("b_ready") or [])) + sum(b for a, b in (scn.get("r_ready") or [])) + 1
    ntot = len(wstream) + len(rbeats)
    dl = sum(x.get("delay", 0) + x.get("wlead", 0) + sum(x.get("wdelay") or [0]) * (x["len"] + 1) for x in writes) + sum(x.get("delay", 0) for x in reads)
    cap = 800 + dl + ntot * (10 + stall + max(m.get("extra") or [0]) + m.get("rl1", 3))
    if d.get("rmw"):
        cap *= 3
    if core:
        cap = 2 * cap + 3000 + 80 * ntot
    need_quiet = 80 + max([b for a, b in (m.get("cmd_ready") or []) + (scn.get("b_ready") or []) + (scn.get("r_ready") or [])] or [0]) + max(m.get("extra") or [0]) + m.get("rl1", 3)
    if core:
        need_quiet += 200
    cyc = 0
    quiet = 0
    while cyc < cap:
        sim.step()
        cyc += 1
        if not cyc & 63 and stuck(sim, cyc):
            break       # no handshake anywhere for 60000 cycles: the run is stuck, do not spin to the cap
        done = aw_d.done() and w_d.done() and ar_d.done() and st["b"] >= len(writes) and st["r"] >= len(rbeats) and mem.idle()
        if done:
            quiet += 1
            if quiet > need_quiet:
                break
        else:
            quiet = 0
    if not (aw_d.done() and w_d.done() and ar_d.done() and st["b"] >= len(writes) and st["r"] >= len(rbeats) and mem.idle()):
        viol.add("hang", "not completed after %d cycles: AW %d/%d, W beats %d/%d, B %d/%d, AR %d/%d, R beats %d/%d, native cmds %d, memory idle=%s"
                 % (cyc, aw_d.n, len(aw_items), w_d.n, len(w_items), st["b"], len(writes), ar_d.n, len(ar_items), st["r"], len(rbeats), mem.ncmd, mem.idle()))
    else:
        # final image equals the write stream applied in order
        for wa, h in sorted(hist.items()):
            if mem.read_word(wa) != h[-1][0]:
                viol.add("final_image", "memory word 0x%x holds 0x%x, the write stream leaves 0x%x" % (wa, mem.read_word(wa), h[-1][0]))
                break
        for wa in sorted(mem.mem):
            if wa not in hist and mem.mem[wa] != mem_init(wa):
                viol.add("final_image", "memory word 0x%x was modified (0x%x) although no write beat addresses it" % (wa, mem.mem[wa]))
                break
        nw = sum(1 for x in mem.log if x[0] == "w")
        if nw != len(wstream):
            viol.add("write_count", "%d native writes for %d AXI write beats" % (nw, len(wstream)))
        if d.get("rmw"):
            for x in mem.log:
                if x[0] == "w" and x[3] != full:
                    viol.add("rmw_partial_native_write", "native write to 0x%x with byte enables 0x%x in read-modify-write mode" % (x[1], x[3]))
                    break
        nr = sum(1 for x in mem.log if x[0] == "r")
        stats["rmw_cycles"] = max(0, nr - len(rbeats))
    stats["core_variant_runs"] = 1 if core else 0
    stats["b_stall"], stats["r_stall"] = sc_b.n, sc_r.n
    return {"violations": viol.v, "stats": stats, "cycles": cyc, "sim_ps": sim.now, "digest": sim.digest(),
            "nontrivial": len(writes) + len(reads) >= 2,
            "states": samp.states("rmw%d " % int(bool(d.get("rmw")))),
            "summary": {"dw": dw, "writes": len(writes), "reads": len(reads), "cycles": cyc, "rmw": bool(d.get("rmw"))}}


def gen_burst(rng, nb, base, window, maxlen, hot):
    burst = rng.choice([INCR, INCR, INCR, FIXED, WRAP])
    if burst == WRAP:
        length = rng.choice([1, 3, 7, 15])
    elif burst == FIXED:
        length = rng.choice([0, 0, 1, 3, rng.randint(0, 15)])
    else:
        length = rng.choice([0, 0, 1, 3, 7, rng.randint(0, maxlen)])
    if rng.random() < 0.7 and hot:
        off = rng.choice(hot) + rng.choice([0, 0, nb, 2 * nb, -nb]) % window
    else:
        off = rng.randrange(0, window)
    off = (off // nb) * nb
    if burst == INCR and rng.random() < 0.15:
        off += rng.randrange(nb)          # unaligned start
    addr = base + off % window
    if burst == INCR:
        # must not cross a 4 KiB boundary
        end = (addr // nb) * nb + (length + 1) * nb
        if (addr // 4096) != ((end - 1) // 4096):
            addr = base + ((addr - base) // 4096) * 4096 + rng.randrange(0, max(1, (4096 - (length + 1) * nb) // nb + 1)) * nb if (length + 1) * nb <= 4096 else base
            if (length + 1) * nb > 4096:
                length = 4096 // nb - 1
                addr = base + ((addr - base) // 4096) * 4096
    if base + window <= addr + (length + 1) * nb:
        addr = base
    return burst, length, addr


def gen(rng, tier, index):
    core = None
    dw = rng.choice([32, 32, 64, 128, 8, 16])
    naw = rng.choice([12, 16, 20])
    if rng.random() < 0.12:
        from .. import coregen
        core, info = coregen.gen_core(rng, nports=1, nranks=1)
        dw = info["data_bytes"] * 8
        naw = coregen.amap_of(core, info).aw
    scn = _gen(rng, tier, index, dw, naw, small=core is not None)
    if core:
        scn["core"] = core
    return scn


def _gen(rng, tier, index, dw, naw, small=False):
    nb = dw // 8
    window = (1 << naw) * nb
    base = rng.choice([0, 0, 0x1000, 0x10000, 0x40000000, 0x80000000])
    if base and base + window > (1 << 32):
        base = 0x10000
    window = min(window, (1 << 32) - base)       # 32-bit AXI address space
    d = {"dw": dw, "idw": rng.choice([1, 2, 4, 8]), "wdepth": rng.choice([2, 4, 8, 16, 16]), "rdepth": rng.choice([2, 4, 8, 16, 16]),
         "base": base, "naw": naw, "rmw": rng.random() < 0.3}
    maxlen = 63 if tier == "quick" else 255
    nw = rng.choice([0, 1, 2, 4, 8, 16])
    nr = rng.choice([0, 1, 2, 4, 8, 16])
    if small:
        maxlen, nw, nr = 15, min(nw, 6), min(nr, 6)
    if nw + nr == 0:
        nw = 2
    hot = [rng.randrange(0, window) for _ in range(rng.choice([1, 2, 4]))]
    sm = rng.choice(["full", "full", "rand", "sparse"]) if d["rmw"] or rng.random() < 0.5 else "full"
    writes, reads = [], []
    wid = 1
    dlm = rng.choice(["zero", "zero", "small", "gaps"])

    def dly():
        if dlm == "zero":
            return 0
        if dlm == "small":
            return rng.choice([0, 0, 1, 2, 4])
        return rng.choice([0, 0, 0, rng.randint(5, 60)])
    for k in range(nw):
        burst, length, addr = gen_burst(rng, nb, base, window, maxlen, hot)
        w = {"id": rng.getrandbits(d["idw"]), "addr": addr, "burst": burst, "len": length, "wid0": wid, "delay": dly(),
             "wlead": rng.choice([0, 0, 0, rng.randint(1, 30)]), "wdelay": [rng.choice([0, 0, 0, 1, 3]) for _ in range(rng.randint(1, 5))] if rng.random() < 0.4 else [0]}
        if sm != "full":
            w["strb"] = [(rng.getrandbits(nb) if sm == "rand" else (1 << rng.randrange(nb))) if rng.random() < 0.6 else (1 << nb) - 1 for _ in range(length + 1)]
        wid += length + 1
        writes.append(w)
    for k in range(nr):
        burst, length, addr = gen_burst(rng, nb, base, window, maxlen, hot)
        reads.append({"id": rng.getrandbits(d["idw"]), "addr": addr, "burst": burst, "len": length,
                      "delay": dly() + (rng.choice([0, 0, 50, 200]) if k == 0 else 0)})
    wl1 = rng.randint(1, 6)
    mem = {"cmd_ready": gen_pattern(rng), "max_out": rng.randint(3, 26), "wl1": wl1, "rl1": rng.randint(wl1 + 1, 14),
           "extra": gen_extra(rng) if rng.random() < 0.8 else [rng.choice([30, 60, 90])] + [0] * rng.randint(5, 40)}
    return {"dut": d, "mem": mem, "writes": writes, "reads": reads, "b_ready": gen_pattern(rng), "r_ready": gen_pattern(rng)}
