"""C19 — the bundled DRAM simulation model agrees with an independent DRAM model.

Real code: litedram.phy.model.SDRAMPHYModel (BankModel, DFIPhaseModel, init image distribution) driven by a legal-trace
generator; DramRef (independent reference) shadows the same DFI bus passively and compares read data at the advertised
read latency, the final memory images, and the layout of the initial contents under both address mappings.
"""
from migen import *

from litedram.common import PhySettings, burst_lengths
from litedram.modules import SDRAMModule, _TechnologyTimings, _SpeedgradeTimings
from litedram.phy.model import SDRAMPHYModel

from ..engine import Sim
from ..agents import Violations
from ..dramref import DramRef, log2i

ID = "C19"
LEVEL = "exploration"
TIERS = {"quick": {"runs": 240}, "thorough": {"runs": 6000}}
RULE = ("one case = one seeded legal DFI trace (memory type, phases, read/write phases and latencies, small synthetic geometry, mask granularity, "
        "init image and address mapping; activates/precharges/reads/writes over any bank/row/column pattern, masks, back-to-back bursts, explicit "
        "and auto-precharge); non-trivial = >= 2 reads compared; distinct = distinct event-log digest")
ASSUMPTIONS = [
    "legal traces for these PhySettings: bank state respected, at most one row command and one column command per cycle, reads on rdphase and writes on "
    "wrphase with their enables, write data on all phases write_latency cycles after the command",
    "write-to-read / write-to-precharge spacings respect the DRAM timings (in controller cycles: more than write_latency cycles), as every legal DFI master does",
    "single rank; geometries whose address bus carries A10 (addressbits >= 11)",
    "controller-driven variant: the PHY settings are the model's own (get_sdram_phy_settings for the memory type and clock)",
]
REAL = ["litedram.phy.model.SDRAMPHYModel (BankModel, DFIPhaseModel, init image preparation)"]
STUB = ["legal-trace generator (DFI master)", "DramRef passive (independent DRAM reference)"]
SHRINK = {"lists": ["steps", "ops", "init"], "zero": ["gap", "delay"]}
LEVEL_TEXT = ("Seeded exploration of the bundled DRAM/PHY model against an independent reference on the same DFI bus: read data at read_latency, "
              "rddata_valid timing, final images, init image layout. Sampling, not proof.")
LEVEL_NOTE = "Trusted: compiled evaluator (memories lowered like migen.sim does), DramRef, the legality rules of the trace generator."


def build(d):
    memtype = d["memtype"]

    class Tiny(SDRAMModule):
        nbanks = d["nbanks"]
        nrows = d["nrows"]
        ncols = d["ncols"]
        technology_timings = _TechnologyTimings(tREFI={"1x": 7800, "2x": 3900, "4x": 1950} if memtype == "DDR4" else 7800,
                                                tWTR=(2, None), tCCD=(1, None), tRRD=None)
        speedgrade_timings = {"default": _SpeedgradeTimings(tRP=15, tRCD=15, tWR=15,
                                                            tRFC={"1x": (None, 70), "2x": (None, 70), "4x": (None, 70)} if memtype == "DDR4" else 70,
                                                            tFAW=None, tRAS=40)}
    Tiny.memtype = memtype
    module = Tiny(100e6, {1: "1:1", 2: "1:2", 4: "1:4"}[d["nphases"]])
    # the DFI address bus carries A10 and, for more than 10 column bits, the column bits above it
    module.geom_settings.addressbits = max(11, module.geom_settings.colbits + (1 if module.geom_settings.colbits > 10 else 0))
    nph = d["nphases"]
    bl = nph if memtype == "SDR" else burst_lengths[memtype]
    dfi_databits = d["databits"] * bl // nph
    settings = PhySettings(phytype="SDRAMPHYModel", memtype=memtype, databits=d["databits"], dfi_databits=dfi_databits, nphases=nph,
                           rdphase=d["rdphase"], wrphase=d["wrphase"], cl=3, cwl=2 if memtype not in ("SDR",) else None,
                           read_latency=d["read_latency"], write_latency=d["write_latency"])
    model = SDRAMPHYModel(module, settings=settings, we_granularity=d.get("we_granularity", 8), init=list(d.get("init") or []),
                          address_mapping=d.get("mapping", "ROW_BANK_COL"))
    return model, module, settings, bl


def legal(steps, d):
    """Trace legality (bank state, spacing after writes, one row + one column command per cycle on distinct phases)."""
    nb = d["nbanks"]
    wl = d["write_latency"]
    openrow = [None] * nb
    busy = [0] * nb
    lastwr = -100
    cyc = 2
    for st in steps:
        cyc += st.get("gap", 0)
        real = [c for c in st["cmds"] if not c.get("desel")]
        kinds = [c["k"] for c in real]
        if len(set(c["ph"] for c in st["cmds"])) != len(st["cmds"]):
            return False
        if kinds.count("ACT") > 1 or kinds.count("PRE") > 1 or sum(k in ("RD", "WR") for k in kinds) > 1:
            return False
        if "ACT" in kinds and "PRE" in kinds:
            a = [c for c in real if c["k"] == "ACT"][0]
            p_ = [c for c in real if c["k"] == "PRE"][0]
            if (p_["addr"] >> 10) & 1 or a["bank"] == p_["bank"]:
                return False
        opened_now = set()
        pre_now = False
        for c in real:
            b = c.get("bank", 0)
            if c["k"] == "ACT":
                if openrow[b] is not None or cyc < busy[b]:
                    return False
                openrow[b] = c["addr"]
                opened_now.add(b)
            elif c["k"] == "PRE":
                pre_now = True
                if (c["addr"] >> 10) & 1:
                    if any(cyc < x for x in busy):
                        return False
                    openrow = [None] * nb
                else:
                    if cyc < busy[b]:
                        return False
                    openrow[b] = None
        for c in real:
            b = c.get("bank", 0)
            if c["k"] in ("RD", "WR"):
                if openrow[b] is None or b in opened_now or (pre_now and openrow[b] is None):
                    return False
                if c["k"] == "WR":
                    if c["ph"] != d["wrphase"]:
                        return False
                    busy[b] = cyc + wl + 2
                    lastwr = cyc
                else:
                    if c["ph"] != d["rdphase"] or cyc <= lastwr + wl:
                        return False
                if (c["addr"] >> 10) & 1:
                    openrow[b] = None
                    busy[b] = max(busy[b], cyc + 1)
        cyc += 1
    return True


def init_layout(init, memtype, nph, word_bits, nb, nr, nc, mapping):
    """Independent reading of where the init image's words sit: (rank, bank, row, col) -> model word."""
    cols_per_word = (1 if memtype == "SDR" else 2) * nph
    words_per_row = nc // cols_per_word

    def init_word_at(lin):
        if word_bits >= 32:
            v = 0
            for j in range(word_bits // 32):
                i = lin * (word_bits // 32) + j
                v |= (init[i] if i < len(init) else 0) << (32 * j)
            return v
        per = 32 // word_bits
        i, sub = divmod(lin, per)
        x = init[i] if i < len(init) else 0
        return (x >> (sub * word_bits)) & ((1 << word_bits) - 1)

    def default_fn(key):
        rank, bank, row, col = key
        cw = col // cols_per_word
        if mapping == "ROW_BANK_COL":
            lin = (row * nb + bank) * words_per_row + cw
        else:
            lin = (bank * nr + row) * words_per_row + cw
        return init_word_at(lin) if init else 0
    return default_fn


def run_ctrl(scn):
    """The real controller (whole LiteDRAMCore) generates the DFI trace: user masters -> crossbar -> controller -> bundled model, with
    DramRef shadowing the model's DFI bus passively, and the user-visible read data checked end to end."""
    from ..corebench import CoreBench
    from ..agents import NativeMaster, word_of
    core = scn["core"]
    tb = CoreBench(core)
    sim = tb.sim
    viol = Violations(sim, cap=8)
    model = tb.dut.phy
    ps = tb.phy_settings
    g = tb.geom
    pm = core["phy_model"]
    dram = DramRef(sim, model.dfi, tb.dram_cfg(), viol, amap=None, datasheet=None, active=False)
    word_bits = ps.dfi_databits * ps.nphases
    nb, nr, nc = 1 << g.bankbits, 1 << g.rowbits, 1 << g.colbits
    default_fn = init_layout(list(pm.get("init") or []), ps.memtype, ps.nphases, word_bits, nb, nr, nc, pm.get("mapping", "ROW_BANK_COL"))
    dram.default_fn = default_fn
    amap = tb.amap
    nbytes = word_bits // 8
    full = (1 << nbytes) - 1
    ref = {}            # user word address -> expected word (overlay of the bytes written on the init word)
    stats = {"cmds": 0, "reads": 0, "writes": 0, "masked_writes": 0, "reads_of_init": 0, "compared": 0, "e2e_reads_checked": 0,
             "refreshes": 0, "auto_precharges": 0, "acts": 0}
    masters = []

    def cur(a):
        v = ref.get(a)
        return default_fn(amap.fwd_c(a)) if v is None else v

    def mk(i, port, ops):
        exp = []

        def on_cmd(op):
            a = op["addr"] & ((1 << amap.aw) - 1)
            stats["cmds"] += 1
            sim.ev("cmd", i, op["id"], op["we"], a)
            if op["we"]:
                stats["writes"] += 1
                sel = op.get("sel", full)
                if sel != full:
                    stats["masked_writes"] += 1
                old, data, v = cur(a), word_of(op["id"], nbytes), 0
                for b in range(nbytes):
                    src = data if (sel >> b) & 1 else old
                    v |= src & (0xFF << (8 * b))
                ref[a] = v
            else:
                stats["reads"] += 1
                if a not in ref:
                    stats["reads_of_init"] += 1
                exp.append((op["id"], a, cur(a)))
        got = [0]

        def on_rdata(data):
            k = got[0]
            got[0] += 1
            sim.ev("rd", i, k, data)
            if k >= len(exp):
                viol.add("c19.e2e_spurious", "port %d: read data 0x%x with no read outstanding" % (i, data))
                return
            oid, a, v = exp[k]
            stats["e2e_reads_checked"] += 1
            if data != v:
                viol.add("c19.e2e_read", "port %d read op %d of word 0x%x through controller + bundled model returned 0x%x, expected 0x%x"
                         % (i, oid, a, data, v))
        m = NativeMaster(sim, port, ops, name="m%d" % i, on_cmd=on_cmd, on_rdata=on_rdata)
        m.exp, m.got = exp, got
        sim.add_agent("sys", m)
        masters.append(m)
    # several ports writing the same word concurrently would make the expected value depend on the arbitration order; the
    # crossbar-order bookkeeping belongs to C01 - here each port owns its words (address sets are disjoint by construction)
    for i, (port, pc) in enumerate(zip(tb.ports, scn["ports"])):
        mk(i, port, pc["ops"])
    cap = scn.get("limits", {}).get("max_cycles", 20000)
    cyc = 0
    quiet = None
    while cyc < cap:
        sim.step()
        cyc = sim.cycles["sys"]
        if all(m.idle() for m in masters):
            if quiet is None:
                quiet = cyc
            elif cyc - quiet > ps.read_latency + ps.write_latency + 24:
                break
        else:
            quiet = None
    if not all(m.idle() for m in masters):
        viol.add("c19.e2e_hang", "controller + bundled model did not drain after %d cycles" % cyc)
    stats["compared"] = dram.ncompared
    from ..dramref import ACT, REF
    stats["refreshes"], stats["acts"], stats["auto_precharges"] = dram.ncmd[REF], dram.ncmd[ACT], dram.nauto
    # final image: model memories vs reference store, and vs the user-level expectation
    mems = sorted(sim.memories.items(), key=lambda kv: kv[0].duid)
    cols_per_word = (1 if ps.memtype == "SDR" else 2) * ps.nphases
    if len(mems) == nb and not viol:
        for (rank, bank, row, col), w in sorted(dram.store.items()):
            if row < 0:
                continue
            idx = (row * nc + col) // cols_per_word
            arr = mems[bank][1]
            if idx < len(arr) and sim.get(arr[idx]) != w:
                viol.add("c19.final_image", "model bank %d word %d (row %d col %d) holds 0x%x, independent reference 0x%x"
                         % (bank, idx, row, col, sim.get(arr[idx]), w))
                break
        for a, v in sorted(ref.items()):
            rank, bank, row, col = amap.fwd_c(a)
            idx = (row * nc + col) // cols_per_word
            arr = mems[bank][1]
            if idx < len(arr) and sim.get(arr[idx]) != v:
                viol.add("c19.final_image", "model bank %d word %d holds 0x%x after the run, the user-level expectation for word 0x%x is 0x%x"
                         % (bank, idx, sim.get(arr[idx]), a, v))
                break
    vs = [v for v in viol.v if v["oracle"].startswith("c19")]
    return {"violations": vs, "other_violations": [v for v in viol.v if not v["oracle"].startswith("c19")],
            "stats": stats, "cycles": cyc, "sim_ps": sim.now, "digest": sim.digest(),
            "nontrivial": dram.ncompared >= 2, "states": ["ctrl %s p%d" % (ps.memtype, ps.nphases)],
            "summary": {"variant": "ctrl", "memtype": ps.memtype, "nphases": ps.nphases, "ports": len(masters),
                        "reads_compared": dram.ncompared, "mapping": pm.get("mapping")}}


def run(scn):
    if scn.get("variant") == "ctrl":
        return run_ctrl(scn)
    d = scn["dut"]
    if not legal(scn["steps"], d):
        # not a legal trace (only reachable through shrinking): nothing is claimed about it
        return {"violations": [], "stats": {}, "cycles": 0, "sim_ps": 0, "digest": "illegal", "nontrivial": False, "states": [], "summary": {}}
    model, module, ps, bl = build(d)
    sim = Sim(model, {"sys": 10000})
    viol = Violations(sim)
    g = module.geom_settings
    nph = ps.nphases
    align = log2i(bl)
    cfg = {"nphases": nph, "nranks": 1, "bankbits": g.bankbits, "rowbits": g.rowbits, "colbits": g.colbits, "align": align,
           "memtype": ps.memtype, "read_latency": ps.read_latency, "write_latency": ps.write_latency, "rdphase": ps.rdphase,
           "wrphase": ps.wrphase, "cl": ps.cl, "cwl": ps.cwl, "period_ps": 10000, "dfi_databits": ps.dfi_databits}
    dram = DramRef(sim, model.dfi, cfg, viol, amap=None, datasheet=None, active=False)
    word_bits = ps.dfi_databits * nph
    word_bytes = word_bits // 8
    # initial contents per address mapping (independent reading of the layout): linear index in model words
    init = list(d.get("init") or [])
    nb, nr, nc = d["nbanks"], d["nrows"], d["ncols"]
    # the model stores one word per burst_length_model*nphases columns; its own burst table: SDR 1, DDRx 2 columns per phase
    cols_per_word = (1 if ps.memtype == "SDR" else 2) * nph
    words_per_row = nc // cols_per_word
    ratio32 = word_bits // 32 if word_bits >= 32 else None

    def init_word_at(lin):
        """word `lin` of the image seen as a sequence of model words (32-bit little-endian ints concatenated / split)."""
        if word_bits >= 32:
            v = 0
            for j in range(word_bits // 32):
                i = lin * (word_bits // 32) + j
                v |= (init[i] if i < len(init) else 0) << (32 * j)
            return v
        per = 32 // word_bits
        i, sub = divmod(lin, per)
        x = init[i] if i < len(init) else 0
        return (x >> (sub * word_bits)) & ((1 << word_bits) - 1)

    def default_fn(key):
        rank, bank, row, col = key
        cw = col // cols_per_word
        if d.get("mapping", "ROW_BANK_COL") == "ROW_BANK_COL":
            lin = (row * nb + bank) * words_per_row + cw
        else:
            lin = (bank * nr + row) * words_per_row + cw
        return init_word_at(lin) if init else 0
    dram.default_fn = default_fn
    ix = sim.index
    phs = [{k: ix(getattr(p, k)) for k in ("cs_n", "ras_n", "cas_n", "we_n", "bank", "address", "wrdata", "wrdata_en", "wrdata_mask", "rddata_en")}
           for p in model.dfi.phases]
    steps = scn["steps"]
    stats = {"acts": 0, "pres": 0, "reads": 0, "writes": 0, "auto_precharges": 0, "masked_writes": 0, "back_to_back_cols": 0,
             "reads_of_init": 0, "compared": 0, "deselected_noise": 0, "act_and_pre_same_cycle": 0}
    # expand steps into a per-cycle schedule
    sched = {}
    cyc = 2
    wl = ps.write_latency
    lastcol = None
    for st in steps:
        cyc += st.get("gap", 0)
        for c in st["cmds"]:
            sched.setdefault(cyc, {"cmds": [], "data": None})["cmds"].append(c)
            if c.get("desel"):
                stats["deselected_noise"] += 1
                continue
            if c["k"] == "WR":
                sched.setdefault(cyc + wl, {"cmds": [], "data": None})["data"] = (c["data"], c.get("mask", 0))
                stats["writes"] += 1
                if c.get("mask"):
                    stats["masked_writes"] += 1
            if c["k"] in ("RD", "WR"):
                if lastcol == cyc - 1:
                    stats["back_to_back_cols"] += 1
                lastcol = cyc
                if c.get("ap"):
                    stats["auto_precharges"] += 1
            if c["k"] == "RD":
                stats["reads"] += 1
            if c["k"] == "ACT":
                stats["acts"] += 1
                if any(x["k"] == "PRE" and not x.get("desel") for x in st["cmds"]):
                    stats["act_and_pre_same_cycle"] += 1
            if c["k"] == "PRE":
                stats["pres"] += 1
        cyc += 1
    end = cyc + ps.read_latency + wl + 6
    dm = (1 << ps.dfi_databits) - 1
    mm = (1 << (ps.dfi_databits // 8)) - 1

    def driver(sim):
        t = sim.cycles["sys"] + 1       # values poked now are visible during cycle t
        e = sched.get(t)
        for p, ph in enumerate(phs):
            sim.poke(ph["cs_n"], 1); sim.poke(ph["ras_n"], 1); sim.poke(ph["cas_n"], 1); sim.poke(ph["we_n"], 1)
            sim.poke(ph["wrdata_en"], 0); sim.poke(ph["rddata_en"], 0)
        if e:
            for c in e["cmds"]:
                ph = phs[c["ph"]]
                k = c["k"]
                ras, cas, we = {"ACT": (1, 0, 0), "PRE": (1, 0, 1), "RD": (0, 1, 0), "WR": (0, 1, 1), "REF": (1, 1, 0)}[k]
                sim.poke(ph["cs_n"], 1 if c.get("desel") else 0); sim.poke(ph["ras_n"], 1 - ras); sim.poke(ph["cas_n"], 1 - cas); sim.poke(ph["we_n"], 1 - we)
                sim.poke(ph["bank"], c.get("bank", 0))
                sim.poke(ph["address"], c.get("addr", 0))
                if k == "RD" and not c.get("desel"):
                    sim.poke(ph["rddata_en"], 1)
                if k == "WR" and not c.get("desel"):
                    sim.poke(ph["wrdata_en"], 1)
            if e["data"] is not None:
                data, mask = e["data"]
                for p, ph in enumerate(phs):
                    sim.poke(ph["wrdata"], (data >> (p * ps.dfi_databits)) & dm)
                    sim.poke(ph["wrdata_mask"], (mask >> (p * (ps.dfi_databits // 8))) & mm)
    # the driver must run before DramRef samples? both run pre-edge on the same cycle values; order is irrelevant
    sim.add_agent("sys", driver)
    sim.run(end, "sys")
    # final image: model memories vs reference store
    stats["compared"] = dram.ncompared
    banks = [m for n_, m in model._submodules if type(m).__name__ == "BankModel"]
    mems = sorted(sim.memories.items(), key=lambda kv: kv[0].duid)
    if len(mems) == len(banks) and not viol:
        for (rank, bank, row, col), w in sorted(dram.store.items()):
            if row < 0:
                continue
            idx = (row * nc + col) // cols_per_word
            arr = mems[bank][1]
            if idx < len(arr):
                got = sim.get(arr[idx])
                if got != w:
                    viol.add("c19.final_image", "model bank %d word %d (row %d col %d) holds 0x%x, independent reference 0x%x" % (bank, idx, row, col, got, w))
                    break
    vs = [v for v in viol.v if v["oracle"].startswith("c19")]
    return {"violations": vs, "other_violations": [v for v in viol.v if not v["oracle"].startswith("c19")],
            "stats": stats, "cycles": end, "sim_ps": sim.now, "digest": sim.digest(),
            "nontrivial": dram.ncompared >= 2, "states": ["%s p%d" % (ps.memtype, nph)],
            "summary": {"dut": {k: v for k, v in d.items() if k != "init"}, "steps": len(steps), "reads_compared": dram.ncompared}}


def gen_ctrl(rng, tier):
    from .. import coregen
    bankbits = rng.choice([1, 2, 3])
    rowbits = rng.choice([3, 4, 5])
    colbits = rng.choice([6, 7, 8, 9, 10])
    while bankbits + rowbits + colbits > 14 and (rowbits > 3 or bankbits > 1):
        # every model word becomes a signal of the simulation: keep the device at a few thousand words
        if rowbits > 3:
            rowbits -= 1
        else:
            bankbits -= 1
    FR = {"SDR": (20e6, 133e6), "DDR": (50e6, 200e6), "LPDDR": (50e6, 200e6), "DDR2": (50e6, 266e6), "DDR3": (50e6, 233e6), "DDR4": (80e6, 333e6)}
    for _ in range(60):
        core, info = coregen.gen_core(rng, lib=False, nranks=1, nports=rng.choice([1, 1, 2, 3]), geom=(bankbits, rowbits, colbits),
                                      model_phases=True, zqcs=False)
        if info["nphases"] == coregen.MODEL_NPHASES[info["memtype"]] and FR[info["memtype"]][0] <= 1e12 / core["clk_period_ps"] <= FR[info["memtype"]][1]:
            break
    memtype, nph = info["memtype"], info["nphases"]
    # the PHY settings the model is written for (get_sdram_phy_settings: CL/CWL and the latencies derived from them); with arbitrary
    # latencies the controller's write-to-read turnaround (derived from CWL) can be shorter than the PHY's write latency, and a model
    # that stores the data write_latency cycles after the command then legitimately returns the old word
    core["phy"] = {"from": "model"}
    word_bits = info["data_bytes"] * 8
    pm = {"we_granularity": rng.choice([8, 8, 0]), "mapping": rng.choice(["ROW_BANK_COL", "BANK_ROW_COL"])}
    if rng.random() < 0.7:
        cols_per_word = (1 if memtype == "SDR" else 2) * nph
        total_words = (1 << bankbits) * (1 << rowbits) * ((1 << colbits) // cols_per_word)
        n32 = max(1, total_words * word_bits // 32)
        pm["init"] = [rng.getrandbits(32) for _ in range(rng.choice([n32, n32, max(1, n32 // 3), max(1, n32 - 5)]))]
    core["phy_model"] = pm
    amap = coregen.amap_of(core, info)
    hot = coregen.gen_hot(rng, info, 1)
    nports = len(core["ports"])
    n = rng.choice([6, 20, 60]) if tier == "quick" else rng.choice([20, 80, 250])
    ports = []
    total = 0
    for i in range(nports):
        ops = coregen.gen_port_ops(rng, amap, info, n, hot, id0=1 + i * 100000, sel_mode="full" if not pm["we_granularity"] else None)
        # each port owns the addresses congruent to its index (so the expected data does not depend on arbitration order)
        for o in ops:
            rank, bank, row, col = amap.fwd(o["addr"])
            colw = col >> info["align"]
            ncolw = 1 << (info["colbits"] - info["align"])
            colw = (colw - colw % nports + i) % ncolw if ncolw >= nports else colw
            o["addr"] = amap.inv(rank, bank, row, colw << info["align"])
        if nports > (1 << (info["colbits"] - info["align"])):
            ops = ops if i == 0 else []
        ports.append({"ops": ops})
        total += len(ops)
    return {"variant": "ctrl", "core": core, "ports": ports,
            "limits": {"max_cycles": 4000 + 150 * total + sum(o.get("delay", 0) for p_ in ports for o in p_["ops"])}}


def gen(rng, tier, index):
    if rng.random() < 0.2:
        return gen_ctrl(rng, tier)
    memtype = rng.choice(["SDR", "DDR", "DDR2", "DDR3", "DDR3", "DDR4", "LPDDR"])
    # phase counts the model is written for (phy/model.py: sdram_module_nphases)
    nph = {"SDR": 1, "DDR": 2, "LPDDR": 2, "DDR2": 2, "DDR3": 4, "DDR4": 4}[memtype]
    bl = nph if memtype == "SDR" else burst_lengths[memtype]
    colbits = rng.choice([6, 7, 8, 9, 10, 10, 11])
    while (1 << colbits) < 2 * bl * 2:
        colbits += 1
    nrows = rng.choice([4, 8, 16])
    nbanks = rng.choice([2, 4, 8])
    wl = rng.randint(0, 3)
    d = {"memtype": memtype, "nphases": nph, "nbanks": nbanks, "nrows": nrows, "ncols": 1 << colbits, "databits": rng.choice([8, 16, 32]),
         "rdphase": rng.randrange(nph), "wrphase": rng.randrange(nph), "read_latency": rng.randint(max(1, wl + 1), 8), "write_latency": wl,
         "we_granularity": rng.choice([8, 8, 0]), "mapping": rng.choice(["ROW_BANK_COL", "BANK_ROW_COL"])}
    word_bits = d["databits"] * bl
    if rng.random() < 0.6:
        cols_per_word = (1 if memtype == "SDR" else 2) * nph
        total_words = nbanks * nrows * (d["ncols"] // cols_per_word)
        n32 = max(1, total_words * word_bits // 32)
        d["init"] = [rng.getrandbits(32) for _ in range(rng.choice([n32, n32, max(1, n32 // 3), max(1, n32 - 5)]))]
    nsteps = rng.choice([5, 20, 60, 150]) if tier == "quick" else rng.choice([20, 80, 300])
    # ---- legal trace
    openrow = [None] * nbanks
    busy_until = [0] * nbanks       # no PRE/ACT before this cycle (pending write data)
    last_wr_cycle = -100
    steps = []
    cyc = 2
    align = log2i(bl)
    ncolw = (1 << colbits) >> align
    hotrows = [rng.randrange(nrows) for _ in range(3)]
    hotcols = [rng.randrange(ncolw) for _ in range(4)]
    wid = 1
    word_bytes = word_bits // 8
    for _ in range(nsteps):
        gap = rng.choice([0, 0, 0, 1, 2, 5])
        cyc += gap
        cmds = []
        # row command slot
        b = rng.randrange(nbanks)
        r = rng.random()
        rowph = rng.randrange(nph)
        if openrow[b] is None and r < 0.7:
            row = rng.choice(hotrows) if rng.random() < 0.7 else rng.randrange(nrows)
            if cyc >= busy_until[b]:
                cmds.append({"k": "ACT", "ph": rowph, "bank": b, "addr": row})
                openrow[b] = row
        elif openrow[b] is not None and r < 0.25 and cyc >= busy_until[b]:
            allb = rng.random() < 0.2 and all(cyc >= busy_until[x] for x in range(nbanks))
            cmds.append({"k": "PRE", "ph": rowph, "bank": b, "addr": (1 << 10) if allb else 0})
            if allb:
                openrow = [None] * nbanks
            else:
                openrow[b] = None
        # a precharge of another bank may share the cycle with an activate (different phases)
        if cmds and cmds[0]["k"] == "ACT" and nph > 1 and rng.random() < 0.25:
            others = [x for x in range(nbanks) if x != cmds[0]["bank"] and openrow[x] is not None and cyc >= busy_until[x]]
            if others:
                b3 = rng.choice(others)
                ph3 = rng.choice([p_ for p_ in range(nph) if p_ != cmds[0]["ph"]])
                cmds.append({"k": "PRE", "ph": ph3, "bank": b3, "addr": 0})
                openrow[b3] = None
        # column command slot (a different bank state must already be open before this cycle)
        opens = [x for x in range(nbanks) if openrow[x] is not None and not any(c["k"] == "ACT" and c["bank"] == x for c in cmds)]
        if opens and rng.random() < 0.75:
            b2 = rng.choice(opens)
            colw = rng.choice(hotcols) if rng.random() < 0.7 else rng.randrange(ncolw)
            col = colw << align
            if colbits > 10:
                col = (col & 0x3FF) | ((col >> 10) << 11)
            ap = rng.random() < 0.12
            if rng.random() < 0.5:
                if d["wrphase"] not in [c["ph"] for c in cmds]:
                    mask = 0
                    if d["we_granularity"] and rng.random() < 0.3:
                        mask = rng.getrandbits(word_bytes)
                    cmds.append({"k": "WR", "ph": d["wrphase"], "bank": b2, "addr": col | ((1 << 10) if ap else 0),
                                 "data": rng.getrandbits(word_bits), "mask": mask})
                    busy_until[b2] = cyc + wl + 2
                    last_wr_cycle = cyc
                    if ap:
                        openrow[b2] = None
            else:
                if d["rdphase"] not in [c["ph"] for c in cmds] and cyc > last_wr_cycle + wl:
                    cmds.append({"k": "RD", "ph": d["rdphase"], "bank": b2, "addr": col | ((1 << 10) if ap else 0)})
                    if ap:
                        openrow[b2] = None
                        busy_until[b2] = max(busy_until[b2], cyc + 1)
        # de-selected phases carrying command-like pin values are not commands
        used = set(c["ph"] for c in cmds)
        free = [p_ for p_ in range(nph) if p_ not in used]
        if cmds and free and rng.random() < 0.15:
            cmds.append({"k": rng.choice(["RD", "WR", "ACT", "PRE"]), "ph": rng.choice(free), "bank": rng.randrange(nbanks),
                         "addr": rng.getrandbits(10), "desel": 1})
        if cmds:
            steps.append({"gap": gap, "cmds": cmds})
            cyc += 1
        else:
            cyc -= gap
    return {"dut": d, "steps": steps}
