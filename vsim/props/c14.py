"""C14 — BIST reports exactly the words that differ.

Real code: litedram.frontend.bist._LiteDRAMBISTGenerator + _LiteDRAMBISTChecker (LFSR/counter generators, DMA engines) on
two native ports (NativeMemSlave group) or two AXI ports (AXI slave stubs) of one memory; stored words are corrupted between
generation and check and while the checker is reading.
"""
from math import ceil

from migen import *

from litedram.common import LiteDRAMNativePort
from litedram.frontend.axi import LiteDRAMAXIPort
from litedram.frontend.bist import _LiteDRAMBISTGenerator, _LiteDRAMBISTChecker

from ..engine import Sim
from ..agents import stuck, NativeMemSlave, MemGroup, Violations, init_word
from .c07 import gen_pattern, gen_extra
from .c12 import AXISlave

ID = "C14"
LEVEL = "exploration"
TIERS = {"quick": {"runs": 500}, "thorough": {"runs": 10000}}
RULE = ("one case = one seeded scenario (port type native/AXI, data width 8..256, base, power-of-two range, length, sequential/random data and "
        "address modes, memory timings; k corrupted words inside/outside the range, at repeated addresses, between generator done and checker "
        "start or while the checker is reading); non-trivial = generator and checker both completed >= 2 words; distinct = distinct event-log digest")
ASSUMPTIONS = [
    "cores are reset before each run (their documented use); base/end/length are multiples of the word size, end - base is a power of two",
    "independent Python model of the PRBS31 / counter generators (written from the LFSR definition) gives the (address, data) sequence",
    "expected error count = number of sequence positions whose word as returned to the checker differs from the generated word",
]
REAL = ["litedram.frontend.bist._LiteDRAMBISTGenerator/_LiteDRAMBISTChecker (Generator, LFSR, Counter)", "litedram.frontend.dma engines"]
STUB = ["control sequencer", "NativeMemSlave group / AXI slave stubs sharing one memory", "memory corruptor"]
SHRINK = {"lists": ["faults", "extra", "cmd_ready"], "zero": []}
LEVEL_TEXT = ("Seeded exploration of the real BIST cores with injected storage corruption; oracle = independent generator model, exact error count, "
              "writes confined to [base, end). Sampling, not proof.")
LEVEL_NOTE = "Trusted: compiled evaluator, memory stubs, the Python PRBS31 model."


def prbs31_seq(n):
    """o values of LFSR(31, 31, [27, 30]) for n successive enables (state resets to 0)."""
    state = 0
    out = []
    for _ in range(n):
        cur = [(state >> i) & 1 for i in range(31)]
        for _i in range(31):
            nv = 1 ^ (cur[27] ^ cur[30])
            cur.insert(0, nv)
            cur.pop()
        o = 0
        for i, b in enumerate(cur):
            o |= b << i
        out.append(o)
        state = o
    return out


def model(cfg, nbytes, nwords):
    """(word address, data word) per sequence position."""
    dw = nbytes * 8
    rep = ceil(dw / 31)
    dseq = prbs31_seq(nwords) if cfg["random_data"] else list(range(nwords))
    aseq = prbs31_seq(nwords) if cfg["random_addr"] else list(range(nwords))
    ashift = nbytes.bit_length() - 1
    mask = (cfg["end"] - cfg["base"]) - 1
    out = []
    for k in range(nwords):
        d31 = dseq[k] & 0x7FFFFFFF
        w = 0
        for r in range(rep):
            w |= d31 << (31 * r)
        w &= (1 << dw) - 1
        out.append(((cfg["base"] >> ashift) + (aseq[k] & mask), w))
    return out, ashift


def run(scn):
    d = scn["dut"]
    dw = d["dw"]
    nb = dw // 8
    axi = d["port"] == "axi"
    if axi:
        wp = LiteDRAMAXIPort(data_width=dw, address_width=32, id_width=1)
        rp = LiteDRAMAXIPort(data_width=dw, address_width=32, id_width=1)
    else:
        wp = LiteDRAMNativePort("write", 26, dw)
        rp = LiteDRAMNativePort("read", 26, dw)

    class DUT(Module):
        def __init__(self, wp_, rp_):
            self.submodules.gen = _LiteDRAMBISTGenerator(wp_)
            self.submodules.chk = _LiteDRAMBISTChecker(rp_)
    core = scn.get("core")
    mw, mr = scn["wmem"], scn["rmem"]
    if core:
        # variant "core": generator and checker on a write and a read port of the real core, DramRef as DRAM
        from ..corebench import core_host, CorePortView
        box = {}

        def attach(top, ports):
            box["dut"] = DUT(ports[0], ports[1])
            top.submodules.frontend = box["dut"]
        tb, sim, viol, dram = core_host(core, Violations, attach)
        dut = box["dut"]
        wp, rp = tb.ports
        memw = CorePortView(sim, tb, dram, wp, name="wmem")
        memr = CorePortView(sim, tb, dram, rp, name="rmem")
        wordkey = lambda wa: tb.amap.fwd_c(wa & ((1 << tb.amap.aw) - 1))
    else:
        dut = DUT(wp, rp)
        sim = Sim(dut, {"sys": 10000})
        viol = Violations(sim)
    if core:
        pass
    elif axi:
        memw = AXISlave(sim, wp, nb, aw_ready=mw.get("cmd_ready"), w_ready=mw.get("w_ready"))
        memr = AXISlave(sim, rp, nb, ar_ready=mr.get("cmd_ready"), r_lat=mr.get("extra"))
        memr.mem = memw.mem
        wordkey = lambda wa: wa * nb      # AXI stub is keyed by raw (byte) address
    else:
        grp = MemGroup()
        memw = NativeMemSlave(sim, wp, cmd_ready=mw.get("cmd_ready"), max_out=mw.get("max_out", 8), wl1=mw.get("wl1", 1), rl1=mw.get("rl1", 3),
                              extra=mw.get("extra"), viol=viol, name="wmem", group=grp)
        memr = NativeMemSlave(sim, rp, cmd_ready=mr.get("cmd_ready"), max_out=mr.get("max_out", 8), wl1=mw.get("wl1", 1), rl1=mw.get("rl1", 3),
                              extra=mr.get("extra"), viol=viol, name="rmem", group=grp)
        wordkey = lambda wa: wa
    if not core:
        sim.add_agent("sys", memw)
        sim.add_agent("sys", memr)
    cfg = scn["cfg"]
    nwords = cfg["length"] // nb
    seq, ashift = model(cfg, nb, nwords)
    g, c = dut.gen, dut.chk
    ix = sim.index
    stats = {"gen_words": 0, "chk_words": 0, "faults_static": 0, "faults_during": 0, "faults_outside_range": 0, "expected_errors": 0,
             "repeated_addresses": nwords - len(set(a for a, _ in seq))}

    def setup(core):
        for name in ("base", "end", "length", "random_data", "random_addr"):
            sim.poke(ix(getattr(core, name)), cfg[name])
    phase = {"p": "gen_reset", "t": 0}
    faults = list(scn.get("faults") or [])
    during = sorted([f for f in faults if f.get("when") == "during"], key=lambda f: f["at_read"])
    mem = dram.store if core else memw.mem
    default = (lambda wa: init_word(wa, nb))

    def corrupt(f):
        wa = f["word"]
        k = wordkey(wa)
        cur = mem.get(k)
        if cur is None:
            cur = dram.default_word(k) if core else (default(wa) if not axi else init_word(k, nb))
        mem[k] = cur ^ (f["xor"] & ((1 << dw) - 1))
        lo, hi = cfg["base"] >> ashift, cfg["end"] >> ashift
        if not (lo <= wa < hi):
            stats["faults_outside_range"] += 1
        sim.ev("corrupt", wa, f["xor"])

    plan = list(scn.get("plan") or ["gen", "chk"])
    last_chk = max(i for i, x in enumerate(plan) if x == "chk") if "chk" in plan else -1
    runs = []      # per step: dict(kind, w0, w1, r0, r1, errors)

    def nwr():
        return len(memw.wlog) if axi else sum(1 for x in memw.log if x[0] == "w")

    def nrd_():
        return len(memr.rlog) if axi else sum(1 for x in memr.log if x[0] == "r")
    st = {"i": 0, "p": "reset", "t0": 0}

    def seqr(sim):
        S = sim.S
        phase["t"] += 1
        t = phase["t"]
        if st["i"] >= len(plan):
            phase["p"] = "end"
            return
        kind = plan[st["i"]]
        core = g if kind == "gen" else c
        p = st["p"]
        if p == "reset":
            if kind == "chk" and st["i"] == last_chk:
                for f in faults:
                    if f.get("when") != "during":
                        corrupt(f)
                        stats["faults_static"] += 1
            sim.poke(ix(core.reset), 1)
            setup(core)
            st["p"] = "start"
            st["t0"] = t
            runs.append({"kind": kind, "w0": nwr(), "r0": nrd_()})
        elif p == "start":
            sim.poke(ix(core.reset), 0)
            if t - st["t0"] > 3:
                sim.poke(ix(core.start), 1)
                st["p"] = "run"
        elif p == "run":
            sim.poke(ix(core.start), 0)
            if kind == "chk" and st["i"] == last_chk:
                n_ = nrd_() - runs[-1]["r0"]
                while during and during[0]["at_read"] <= n_:
                    corrupt(during.pop(0))
                    stats["faults_during"] += 1
            if S[ix(core.done)] and (kind == "chk" or memw.idle()):
                runs[-1]["w1"], runs[-1]["r1"] = nwr(), nrd_()
                if kind == "chk":
                    runs[-1]["errors"] = S[ix(c.errors)]
                st["p"] = "gap"
                st["t0"] = t
        elif p == "gap":
            if t - st["t0"] > 6:
                st["i"] += 1
                st["p"] = "reset"
    sim.add_agent("sys", seqr)
    pats = (mw.get("cmd_ready") or []) + (mr.get("cmd_ready") or []) + (mw.get("w_ready") or [])
    stall = sum(a + b for a, b in pats) + 1
    lat = max(mw.get("extra") or [0]) + max(mr.get("extra") or [0]) + mw.get("rl1", 3) + 10
    cap = 600 + len(plan) * (nwords * (stall + 4) + (nwords // 4 + 4) * lat + 40)
    if core:
        cap = 3 * cap + 4000 + 60 * nwords * len(plan)
    cyc = 0
    while cyc < cap and phase["p"] != "end":
        sim.step()
        cyc += 1
        if not cyc & 63 and stuck(sim, cyc):
            break       # no handshake anywhere for 60000 cycles: the run is stuck, do not spin to the cap
    S = sim.S
    if phase["p"] != "end":
        viol.add("hang", "BIST did not finish after %d cycles (phase %s, generator done=%d, checker done=%d)" % (cyc, phase["p"], S[ix(g.done)], S[ix(c.done)]))
    else:
        if axi:
            wl_all = [(a_ // nb, dta) for a_, dta in memw.wlog]
            rl_all = [(a_ // nb, dta) for a_, dta in memr.rlog]
        else:
            wl_all = [(x[1], x[2]) for x in memw.log if x[0] == "w"]
            rl_all = [(x[1], x[2]) for x in memr.log if x[0] == "r"]
        lo, hi = cfg["base"] >> ashift, cfg["end"] >> ashift
        for ri, r_ in enumerate(runs):
            if r_["kind"] == "gen":
                wl = wl_all[r_["w0"]:r_["w1"]]
                for k, (a_, dta) in enumerate(wl):
                    if not (lo <= a_ < hi):
                        viol.add("write_outside_range", "generator run %d write #%d went to word 0x%x (byte 0x%x), outside [base 0x%x, end 0x%x)"
                                 % (ri, k, a_, a_ * nb, cfg["base"], cfg["end"]), word_offset=a_ - lo, range_bytes=cfg["end"] - cfg["base"])
                        break
                for k, (a_, b_) in enumerate(zip(wl, seq)):
                    if a_ != b_:
                        viol.add("generator_sequence", "generator run %d write #%d is (word 0x%x, 0x%x), model says (0x%x, 0x%x)" % (ri, k, a_[0], a_[1], b_[0], b_[1]))
                        break
                if len(wl) != nwords:
                    viol.add("generator_count", "generator run %d wrote %d words, length asks for %d" % (ri, len(wl), nwords))
                stats["gen_words"] += len(wl)
            else:
                rl = rl_all[r_["r0"]:r_["r1"]]
                for k, (a_, b_) in enumerate(zip(rl, seq)):
                    if a_[0] != b_[0]:
                        viol.add("checker_address", "checker run %d read #%d addressed word 0x%x, model says 0x%x" % (ri, k, a_[0], b_[0]))
                        break
                if len(rl) != nwords:
                    viol.add("checker_count", "checker run %d read %d words, length asks for %d" % (ri, len(rl), nwords))
                exp = sum(1 for (ra, rd), (ma, md) in zip(rl, seq) if rd != md)
                stats["expected_errors"] += exp
                if r_.get("errors") != exp:
                    viol.add("error_count", "checker run %d reports %s errors; %d sequence positions returned a word different from the generated one"
                             % (ri, r_.get("errors"), exp))
                stats["chk_words"] += len(rl)
    stats["core_variant_runs"] = 1 if core else 0
    return {"violations": viol.v, "stats": stats, "cycles": cyc, "sim_ps": sim.now, "digest": sim.digest(),
            "nontrivial": stats["gen_words"] >= 2 and stats["chk_words"] >= 2,
            "states": ["%s dw%d rd%d ra%d" % (d["port"], dw, cfg["random_data"], cfg["random_addr"])],
            "summary": {"port": d["port"], "dw": dw, "cfg": cfg, "cycles": cyc, "expected_errors": stats["expected_errors"]}}


def classify(scn, viol):
    """Known finding bist-addr-mask-bytes: the address mask (end - base - 1) is computed in bytes but applied to the word address, so
    the generator/checker wrap at (end - base) *words*: writes land up to word-size times beyond end."""
    if viol.get("oracle") == "write_outside_range" and 0 <= viol.get("word_offset", -1) < viol.get("range_bytes", 0):
        return "bist-addr-mask-bytes"
    return None


def witness(fid):
    if fid != "bist-addr-mask-bytes":
        return None
    m = {"cmd_ready": [], "extra": [], "max_out": 8, "rl1": 6, "w_ready": [], "wl1": 1}
    return {"property": ID, "seed": 0, "dut": {"dw": 32, "port": "native"}, "faults": [], "rmem": dict(m), "wmem": dict(m),
            "cfg": {"base": 4, "end": 8, "length": 24, "random_addr": 0, "random_data": 0}}


def gen(rng, tier, index):
    port = rng.choice(["native", "native", "axi"])
    dw = rng.choice([8, 16, 32, 32, 64, 128, 256])
    core = None
    if port == "native" and rng.random() < 0.15:
        from .. import coregen
        core, info = coregen.gen_core(rng, nports=2, nranks=1)
        core["ports"] = [{"mode": "write"}, {"mode": "read"}]
        dw = info["data_bytes"] * 8
    nb = dw // 8
    rbits = rng.choice([3, 4, 5, 6, 8])                       # range in words = 2**rbits
    rng_words = 1 << rbits
    base = rng.choice([0, rng_words * nb * rng.randint(1, 50), 0x10000 * nb if not core else rng_words * nb * 3])
    end = base + rng_words * nb
    random_addr = rng.random() < 0.4
    random_data = rng.random() < 0.6
    if random_addr:
        nwords = rng.choice([1, 4, rng_words // 2, rng_words, 2 * rng_words])
    else:
        nwords = rng.choice([1, 2, rng_words // 2, rng_words - 1, rng_words])
    nwords = max(1, min(nwords, (400 if tier == "quick" else 2000) if not core else 120))
    cfg = {"base": base, "end": end, "length": nwords * nb, "random_data": int(random_data), "random_addr": int(random_addr)}
    d = {"port": port, "dw": dw}
    seq, ashift = model(cfg, nb, nwords)
    faults = []
    k = rng.choice([0, 0, 1, 2, 5])
    addrs = [a for a, _ in seq]
    for _ in range(k):
        where = rng.choice(["in", "in", "in", "out"])
        wa = rng.choice(addrs) if where == "in" else (end >> ashift) + rng.randint(0, 5)
        f = {"word": wa, "xor": rng.choice([1, 1 << (dw - 1), rng.getrandbits(dw) | 1])}
        if rng.random() < 0.3:
            f["when"] = "during"
            f["at_read"] = rng.randint(0, nwords)
        faults.append(f)

    def mem():
        wl1 = rng.randint(1, 6)
        return {"cmd_ready": gen_pattern(rng), "max_out": rng.randint(3, 24), "wl1": wl1, "rl1": rng.randint(wl1 + 1, 14),
                "extra": gen_extra(rng), "w_ready": gen_pattern(rng)}
    plan = rng.choice([["gen", "chk"], ["gen", "chk"], ["gen", "chk", "chk"], ["gen", "gen", "chk"], ["chk", "gen", "chk"], ["gen", "chk", "gen", "chk"]])
    scn = {"dut": d, "cfg": cfg, "faults": faults, "plan": plan, "wmem": mem(), "rmem": mem()}
    if core:
        scn["core"] = core
    return scn
