"""C02 — DRAM command stream obeys the bank state machine (DFI-level monitor on the whole core)."""
from ..corebench import run_core
from .. import coregen
from . import _corecommon as cc
from ._corecommon import LEVEL, REAL, STUB, SHRINK, LEVEL_NOTE, simplify  # noqa

ID = "C02"
TIERS = {"quick": {"runs": 240}, "thorough": {"runs": 6000}}
WANT = ("c02",)
RULE = ("one case = one seeded whole-core scenario incl. 1..2 ranks; every DFI phase of every cycle is decoded and checked against the bank "
        "state tracker and the per-bank queue of requests accepted at the crossbar; non-trivial = >= 2 commands; distinct = distinct event-log digest")
ASSUMPTIONS = cc.COMMON_ASSUMPTIONS + ["k-th column command of a bank belongs to the k-th request accepted for that bank (banks are FIFOs)"]
LEVEL_TEXT = ("Seeded exploration: independent JEDEC bank-state tracker on the DFI bus (ACT only on precharged bank, RD/WR only on the open row "
              "the request addressed, REF/ZQC only with all banks precharged, phases/strobes/chip-selects). Sampling, not proof.")


def gen(rng, tier, index):
    core, info = coregen.gen_core(rng, nranks=rng.choice([1, 2]))
    amap = coregen.amap_of(core, info)
    hot = coregen.gen_hot(rng, info, core["nranks"])
    nports = len(core["ports"])
    ports = []
    for i in range(nports):
        n = rng.choice([2, 8, 20, 50, 120]) if nports <= 2 else rng.choice([2, 5, 15, 40])
        ports.append({"ops": coregen.gen_port_ops(rng, amap, info, n, hot, id0=1 + 1000 * i)})
    total = sum(len(p["ops"]) for p in ports)
    delay = sum(o.get("delay", 0) for p in ports for o in p["ops"])
    return {"core": core, "ports": ports, "limits": {"max_cycles": 4000 + 60 * total + delay, "tail": 60}}


def run(scn):
    return run_core(scn, WANT)
