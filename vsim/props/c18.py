"""C18 — DFI plumbing is transparent: injector mux and rate converter.

Real code: litedram.dfii.DFIInjector (sel-controlled mux, PhaseInjector CSRs) and litedram.phy.dfi.DFIRateConverter
(litedram.phy.utils Serializer/Deserializer) under random DFI streams; mode switches in arbitrary cycles; two
phase-aligned clocks for the converter.
"""
import random

from migen import *

from litedram.dfii import DFIInjector
from litedram.phy import dfi as ldfi
from litedram.phy.dfi import DFIRateConverter

from ..engine import Sim
from ..agents import Violations

ID = "C18"
LEVEL = "exploration"
TIERS = {"quick": {"runs": 400}, "thorough": {"runs": 10000}}
RULE = ("one case = one seeded scenario: injector (ranks 1..2, phases 1..8, clam-shell on/off; random controller-side and PHY-side values every "
        "cycle; sel/cke/odt/reset_n flipping in arbitrary cycles; CSR commands issued through the strobes) or rate converter (ratio 2/4, PHY phases "
        "1..4, write/read delay 0..ratio-1, serializer reset counts; random commands and data on every slow phase and fast read data every cycle); "
        "non-trivial = >= 20 cycles checked; distinct = distinct event-log digest")
ASSUMPTIONS = [
    "injector software-mode reference written from the CSR field descriptions (cs/we/cas/ras/wren/rden, cs_top/cs_bottom, address, baddress, wrdata, control cke/odt/reset_n)",
    "rate-converter reference written from its docstring and the Serializer/Deserializer latencies: slow phase p+P*j -> fast phase p, fast cycle ratio*(c+1)+j; "
    "write data of slow phases [p*ratio,(p+1)*ratio) form the fast word of phase p in slot write_delay; read data of slot read_delay return 2 slow cycles later",
    "both converter clocks are phase aligned (as the Serializer docstring requires)",
]
REAL = ["litedram.dfii.DFIInjector / PhaseInjector", "litedram.phy.dfi.DFIRateConverter", "litedram.phy.utils.Serializer / Deserializer"]
STUB = ["random DFI stream drivers on both sides", "CSR strobe driver", "clock generator (two aligned clocks)"]
SHRINK = {"lists": [], "zero": []}
LEVEL_TEXT = ("Seeded exploration with per-cycle random values on every DFI signal of every phase and mode switches at arbitrary cycles; oracle = same-cycle "
              "transparency (injector) and a docstring-derived serialisation model (converter). Sampling, not proof.")
LEVEL_NOTE = "Trusted: compiled evaluator and multi-clock kernel, the reference models of this module."

M2S = ["address", "bank", "cas_n", "cs_n", "ras_n", "we_n", "cke", "odt", "reset_n", "act_n", "wrdata", "wrdata_en", "wrdata_mask", "rddata_en"]
S2M = ["rddata", "rddata_valid"]


def run_inj(scn):
    d = scn["dut"]
    nr, nph, clam = d["nranks"], d["nphases"], d["clam"]
    inj = DFIInjector(addressbits=d["abits"], bankbits=d["bbits"], nranks=nr, databits=d["dbits"], nphases=nph, is_clam_shell=clam)

    class Wrap(Module):
        """What the SoC's CSR bank builder does: the CSR objects are finalised as submodules (their field wiring lives in them)."""
        def __init__(self):
            self.submodules.inj = inj
            for c in inj.get_csrs():
                if isinstance(c, Module):
                    c.finalize(32, "big")      # bus word width / ordering of the CSR bank
                    self.submodules += c
    dut = inj
    sim = Sim(Wrap(), {"sys": 10000})
    viol = Violations(sim)
    rng = random.Random(scn["stim_seed"])
    ix = sim.index
    S = sim.S
    sl = [{k: ix(getattr(p, k)) for k in M2S + S2M} for p in dut.slave.phases]
    ma = [{k: ix(getattr(p, k)) for k in M2S + S2M} for p in dut.master.phases]
    width = [{k: len(getattr(p, k)) for k in M2S + S2M} for p in dut.slave.phases]
    mwidth = [{k: len(getattr(p, k)) for k in M2S + S2M} for p in dut.master.phases]
    pis = [getattr(dut, "pi%d" % n) for n in range(nph)]
    csr = [{"cmd": ix(pi._command.storage), "issue": ix(pi._command_issue.re), "addr": ix(pi._address.storage),
            "baddr": ix(pi._baddress.storage), "wrdata": ix(pi._wrdata.storage), "rddata": ix(pi._rddata.status)} for pi in pis]
    i_ctl = ix(dut._control.storage)
    i_ext = ix(dut.ext_dfi_sel)
    n = scn["n"]
    sel_p = scn["sel_flip_p"]
    stats = {"cycles_hw": 0, "cycles_sw": 0, "mode_switches": 0, "csr_commands": 0}
    ctl = 1 | (rng.getrandbits(3) << 1)
    sim.force(dut._control.storage, ctl)
    mnr = 2 * nr if clam else nr
    last_sel = 1
    rd_shadow = [0] * nph
    for cyc in range(n):
        # new stimulus for the coming cycle
        if rng.random() < sel_p:
            ctl ^= 1
        if rng.random() < 0.1:
            ctl = (ctl & 1) | (rng.getrandbits(3) << 1)
        sim.poke(i_ctl, ctl)
        vals_s, vals_m, cs = [], [], []
        for p in range(nph):
            vs = {k: rng.getrandbits(width[p][k]) for k in M2S}
            vm = {k: rng.getrandbits(mwidth[p][k]) for k in S2M}
            for k, v in vs.items():
                sim.poke(sl[p][k], v)
            for k, v in vm.items():
                sim.poke(ma[p][k], v)
            c = {"cmd": rng.getrandbits(8), "issue": 1 if rng.random() < 0.3 else 0, "addr": rng.getrandbits(d["abits"]),
                 "baddr": rng.getrandbits(d["bbits"]), "wrdata": rng.getrandbits(d["dbits"])}
            if c["issue"]:
                stats["csr_commands"] += 1
            for k, v in c.items():
                sim.poke(csr[p][k], v)
            vals_s.append(vs); vals_m.append(vm); cs.append(c)
        sim.step()
        sim.ev("inj", cyc, ctl, S[ma[0]["address"]], S[ma[0]["cs_n"]], S[sl[0]["rddata"]])
        sel = ctl & 1
        if sel != last_sel:
            stats["mode_switches"] += 1
            last_sel = sel
        # ---- check the cycle that is now visible (values poked above are live)
        for p in range(nph):
            if sel:
                stats["cycles_hw"] += 1
                for k in M2S:
                    exp = vals_s[p][k]
                    if k == "cs_n" and clam:
                        exp = exp | (exp << nr)
                    if k in ("cke", "odt") and clam:
                        exp = exp            # only nranks bits are connected; upper bits keep their reset value
                        got = S[ma[p][k]] & ((1 << nr) - 1)
                    else:
                        got = S[ma[p][k]]
                    if got != exp:
                        viol.add("hw_m2s", "hardware mode, cycle %d phase %d: PHY-side %s = 0x%x, controller drives 0x%x" % (cyc, p, k, got, exp))
                for k in S2M:
                    if S[sl[p][k]] != vals_m[p][k]:
                        viol.add("hw_s2m", "hardware mode, cycle %d phase %d: controller-side %s = 0x%x, PHY drives 0x%x" % (cyc, p, k, S[sl[p][k]], vals_m[p][k]))
            else:
                stats["cycles_sw"] += 1
                c = cs[p]
                f = c["cmd"]
                cs_, we_, cas_, ras_, wren, rden, cst, csb = [(f >> i) & 1 for i in range(8)]
                full = (1 << mnr) - 1
                if c["issue"]:
                    if cst:
                        e_cs = 2 & full if mnr >= 2 else 0
                    elif csb:
                        e_cs = 1
                    else:
                        e_cs = 0 if cs_ else full
                    exp = {"cs_n": e_cs, "we_n": 1 - we_, "cas_n": 1 - cas_, "ras_n": 1 - ras_, "wrdata_en": wren, "rddata_en": rden}
                else:
                    exp = {"cs_n": full, "we_n": 1, "cas_n": 1, "ras_n": 1, "wrdata_en": 0, "rddata_en": 0}
                exp.update({"address": c["addr"], "bank": c["baddr"], "wrdata": c["wrdata"], "wrdata_mask": 0})
                cke, odt, rstn = (ctl >> 1) & 1, (ctl >> 2) & 1, (ctl >> 3) & 1
                exp["cke"] = (S[ma[p]["cke"]] & ~((1 << nr) - 1)) | (((1 << nr) - 1) if cke else 0)
                exp["odt"] = (S[ma[p]["odt"]] & ~((1 << nr) - 1)) | (((1 << nr) - 1) if odt else 0)
                exp["reset_n"] = rstn
                for k, e in exp.items():
                    if S[ma[p][k]] != e:
                        viol.add("sw_m2s", "software mode, cycle %d phase %d: PHY-side %s = 0x%x, CSRs say 0x%x (controller side drives 0x%x)"
                                 % (cyc, p, k, S[ma[p][k]], e, vals_s[p].get(k, 0)))
    return {"violations": viol.v, "stats": stats, "cycles": n, "sim_ps": sim.now, "digest": sim.digest(), "nontrivial": n >= 20,
            "states": ["inj r%d p%d c%d" % (nr, nph, int(clam))], "summary": {"variant": "inj", "dut": d, "n": n}}


def run_conv(scn):
    d = scn["dut"]
    ratio, nph, wd, rd, rc = d["ratio"], d["nphases"], d["write_delay"], d["read_delay"], d.get("reset_cnt", -1)
    phy_dfi = ldfi.Interface(d["abits"], d["bbits"], d["nranks"], d["dbits"], nphases=nph)
    fast = "sys%dx" % ratio

    class DUT(Module):
        def __init__(self):
            self.submodules.conv = DFIRateConverter(phy_dfi, clkdiv="sys", clk=fast, ratio=ratio, serdes_reset_cnt=rc, write_delay=wd, read_delay=rd)
    dut = DUT()
    conv = dut.conv
    P = 8000
    sim = Sim(dut, {"sys": {"period": P, "phase": 0}, fast: {"period": P // ratio, "phase": 0}})
    viol = Violations(sim)
    rng = random.Random(scn["stim_seed"])
    ix = sim.index
    S = sim.S
    slow = [{k: ix(getattr(p, k)) for k in M2S + S2M} for p in conv.dfi.phases]
    fastp = [{k: ix(getattr(p, k)) for k in M2S + S2M} for p in phy_dfi.phases]
    sw = {k: len(getattr(conv.dfi.phases[0], k)) for k in M2S + S2M}
    fw = {k: len(getattr(phy_dfi.phases[0], k)) for k in M2S + S2M}
    nslow = ratio * nph
    n = scn["n"]
    cmd_names = [k for k in M2S if k not in ("wrdata", "wrdata_mask")]
    slow_hist = []      # per slow cycle: list over slow phases of dict
    fast_hist = []      # per fast cycle: list over fast phases of dict (s2m values driven)
    stats = {"slow_cycles": 0, "fast_cycles": 0, "cmd_checks": 0, "wrdata_checks": 0, "rddata_checks": 0}
    rcn = rc if rc >= 0 else ratio + rc
    off = (rcn + 1) % ratio        # slice shown at fast cycle f is (f + off) % ratio ; 0 for the default reset count

    def slow_agent(sim):
        c = len(slow_hist)
        # check slow-side outputs for the slow cycle that just ended (values visible during cycle c-1)
        if c >= 1:
            s = c - 1
            if s >= 3 and off == 0:
                for pi in range(nph):
                    f = ratio * (s - 2) + rd
                    src = fast_hist[f][pi]
                    for j in range(ratio):
                        w = sw["rddata"]
                        exp = (src["rddata"] >> (j * w)) & ((1 << w) - 1)
                        got = S[slow[pi * ratio + j]["rddata"]]
                        stats["rddata_checks"] += 1
                        if got != exp:
                            viol.add("rddata", "slow cycle %d phase %d: rddata 0x%x, PHY phase %d returned 0x%x in fast cycle %d (slot %d)"
                                     % (s, pi * ratio + j, got, pi, exp, f, rd))
                        if S[slow[pi * ratio + j]["rddata_valid"]] != src["rddata_valid"]:
                            viol.add("rddata_valid", "slow cycle %d phase %d: rddata_valid %d, PHY phase %d had %d in fast cycle %d"
                                     % (s, pi * ratio + j, S[slow[pi * ratio + j]["rddata_valid"]], pi, src["rddata_valid"], f))
        vals = []
        for p in range(nslow):
            v = {}
            cmd = rng.random() < 0.4
            for k in M2S:
                if k in ("cas_n", "ras_n", "we_n") and not cmd:
                    v[k] = 1
                else:
                    v[k] = rng.getrandbits(sw[k])
                sim.poke(slow[p][k], v[k])
            vals.append(v)
        slow_hist.append(vals)
        stats["slow_cycles"] += 1
        sim.ev("slow", c, S[slow[0]["rddata"]], S[slow[0]["rddata_valid"]])

    def fast_agent(sim):
        f = len(fast_hist)
        # check fast-side outputs of the fast cycle that just ended (f-1)
        if f >= 1:
            g = f - 1
            c = g // ratio - 1
            if c >= 0 and c < len(slow_hist):
                j = (g + off) % ratio
                src = slow_hist[c] if off == 0 or True else None
                for pi in range(nph):
                    sp = src[pi + nph * j]
                    for k in cmd_names:
                        stats["cmd_checks"] += 1
                        if S[fastp[pi][k]] != sp[k]:
                            viol.add("command", "fast cycle %d phase %d: %s = 0x%x, slow cycle %d phase %d drove 0x%x"
                                     % (g, pi, k, S[fastp[pi][k]], c, pi + nph * j, sp[k]))
                    for k in ("wrdata", "wrdata_mask"):
                        exp = 0
                        if j == wd:
                            for jj in range(ratio):
                                exp |= src[pi * ratio + jj][k] << (jj * sw[k])
                        stats["wrdata_checks"] += 1
                        if S[fastp[pi][k]] != exp:
                            viol.add("wrdata", "fast cycle %d phase %d: %s = 0x%x, expected 0x%x (slot %d of slow cycle %d, write_delay %d)"
                                     % (g, pi, k, S[fastp[pi][k]], exp, j, c, wd))
        vals = []
        for p in range(nph):
            v = {"rddata": rng.getrandbits(fw["rddata"]), "rddata_valid": rng.getrandbits(1)}
            sim.poke(fastp[p]["rddata"], v["rddata"])
            sim.poke(fastp[p]["rddata_valid"], v["rddata_valid"])
            vals.append(v)
        fast_hist.append(vals)
        stats["fast_cycles"] += 1
        sim.ev("fast", f, S[fastp[0]["address"]], S[fastp[0]["cas_n"]], S[fastp[0]["wrdata"]])
    sim.add_agent("sys", slow_agent)
    sim.add_agent(fast, fast_agent)
    sim.run(n, "sys")
    return {"violations": viol.v, "stats": stats, "cycles": sim.cycles["sys"] + sim.cycles[fast], "sim_ps": sim.now, "digest": sim.digest(),
            "nontrivial": n >= 20, "states": ["conv r%d p%d wd%d rd%d rc%d" % (ratio, nph, wd, rd, rc)],
            "summary": {"variant": "conv", "dut": d, "n": n}}


def run(scn):
    return run_inj(scn) if scn["variant"] == "inj" else run_conv(scn)


def simplify(scn):
    import copy
    n = scn["n"]
    for m in (n // 2, n * 3 // 4, n - 5, n - 1):
        if 4 < m < n:
            c = copy.deepcopy(scn)
            c["n"] = m
            yield c


def gen(rng, tier, index):
    n = rng.choice([30, 100, 300]) if tier == "quick" else rng.choice([100, 400, 1500])
    if rng.random() < 0.45:
        d = {"nranks": rng.choice([1, 1, 2]), "nphases": rng.choice([1, 2, 4, 4, 8]), "clam": rng.random() < 0.3,
             "abits": rng.choice([13, 14, 16, 17]), "bbits": rng.choice([2, 3, 4]), "dbits": rng.choice([8, 16, 32, 64])}
        return {"variant": "inj", "dut": d, "n": n, "stim_seed": rng.getrandbits(32), "sel_flip_p": rng.choice([0.0, 0.02, 0.1, 0.5])}
    ratio = rng.choice([2, 4])
    d = {"ratio": ratio, "nphases": rng.choice([1, 2, 2, 4]), "write_delay": rng.randrange(ratio), "read_delay": rng.randrange(ratio),
         "reset_cnt": -1, "abits": rng.choice([13, 16, 17]), "bbits": rng.choice([2, 3]), "nranks": rng.choice([1, 2]),
         "dbits": rng.choice([8, 16, 32]) * ratio}
    return {"variant": "conv", "dut": d, "n": n, "stim_seed": rng.getrandbits(32)}
