"""C01 — every read returns the last bytes written to that address (whole core)."""
from ..corebench import run_core
from .. import coregen

ID = "C01"
LEVEL = "exploration"
TIERS = {"quick": {"runs": 240}, "thorough": {"runs": 6000}}
WANT = ("c01",)
RULE = ("one case = one seeded whole-core scenario (memory type, rate, PHY latencies/phases, geometry, datasheet timings, controller "
        "settings, 1..8 ports with op lists, delays); non-trivial = >= 2 commands completed; distinct = distinct event-log digest; "
        "abstract_states_reached counts distinct (multiplexer FSM, refresher FSM, sorted bank-machine FSM states) samples and DFI command 4-grams")
ASSUMPTIONS = [
    "masters hold each command until accepted, queue write data no later than the command, rdata.ready=1",
    "DRAM+PHY = DramRef: independent reference on the DFI bus (write data sampled write_latency after wrdata_en, read data returned read_latency after rddata_en)",
    "refresh-feasible configurations only (DESIGN.md §5 C04)",
]
REAL = ["litedram.core.LiteDRAMCore: DFIInjector (hardware mode), LiteDRAMController (Refresher, BankMachines, Multiplexer), LiteDRAMCrossbar",
        "litedram.modules ns->cycle conversion", "litex/migen library cells"]
STUB = ["NativeMaster per port", "DramRef (DRAM + PHY)"]
SHRINK = {"lists": ["ops"], "zero": ["delay"]}
LEVEL_TEXT = ("Seeded exploration of the complete real core against an independent DRAM reference and a byte-granular reference memory: "
              "per-port read data in command order, cross-port order by acceptance, final DRAM image (stray writes, byte enables). Sampling, not proof.")
LEVEL_NOTE = "Trusted: compiled evaluator (cross-checked against migen.sim), DramRef data model, AddrMap, NativeMaster contract."


def gen(rng, tier, index):
    core, info = coregen.gen_core(rng)
    amap = coregen.amap_of(core, info)
    hot = coregen.gen_hot(rng, info, core["nranks"])
    nports = len(core["ports"])
    nmax = 120 if tier == "quick" else 300
    ports = []
    for i in range(nports):
        n = rng.choice([1, 3, 8, 20, 50, nmax]) if nports <= 2 else rng.choice([1, 5, 15, 40])
        ports.append({"ops": coregen.gen_port_ops(rng, amap, info, n, hot, id0=1 + 1000 * i)})
    total = sum(len(p["ops"]) for p in ports)
    delay = sum(o.get("delay", 0) for p in ports for o in p["ops"])
    return {"core": core, "ports": ports, "limits": {"max_cycles": 4000 + 60 * total + delay, "tail": 60}}


def simplify(scn):
    import copy
    # drop whole ports (keep at least one)
    n = len(scn["ports"])
    for i in range(n - 1, -1, -1):
        if n > 1:
            c = copy.deepcopy(scn)
            del c["ports"][i]
            del c["core"]["ports"][i]
            yield c


def run(scn):
    return run_core(scn, WANT)
