"""C13 — DRAM-backed FIFO is lossless, ordered and bounded.

Real code: litedram.frontend.fifo.LiteDRAMFIFO (_LiteDRAMFIFOCtrl, writer/reader on the DMA engines, bypass FSM,
litex stream.Converter / SyncFIFO) between stream producer/consumer agents and two NativeMemSlave ports sharing one
memory (same-address order across the two ports = acceptance order, as through one bank of the real core).
"""
from migen import *

from litedram.common import LiteDRAMNativePort
from litedram.frontend.fifo import LiteDRAMFIFO

from ..engine import Sim
from ..agents import NativeMemSlave, MemGroup, Violations, StreamDriver, StreamSink
from .c07 import gen_pattern, gen_extra

ID = "C13"
LEVEL = "exploration"
TIERS = {"quick": {"runs": 300}, "thorough": {"runs": 6000}}
RULE = ("one case = one seeded scenario (depth 2..128 DRAM words, stream:port width ratio 1..8, bypass on/off, pre/post FIFO depths; stream of "
        "3..50 x depth unique words; producer/consumer rate patterns that fill, drain, hover around the bypass threshold and switch modes; "
        "memory latencies/stalls on both ports); non-trivial = stream longer than the DRAM depth went through; distinct = distinct event-log digest")
ASSUMPTIONS = [
    "write and read ports = two NativeMemSlave ports on one memory; a read is not served before an earlier-accepted write to the same address of "
    "the other port has landed, a write does not affect reads accepted before it (what one bank of the real core guarantees)",
    "read data is returned whatever rdata.ready says, write data is taken blindly (real crossbar's contract)",
]
REAL = ["litedram.frontend.fifo.LiteDRAMFIFO (_LiteDRAMFIFOCtrl, _LiteDRAMFIFOWriter/Reader, bypass FSM)", "litedram.frontend.dma engines",
        "litex stream.Converter, SyncFIFO"]
STUB = ["stream producer/consumer", "two NativeMemSlave ports sharing one memory"]
SHRINK = {"lists": ["extra", "cmd_ready", "ready", "delays"], "zero": ["n"]}
LEVEL_TEXT = ("Seeded exploration of the real DRAM FIFO across pointer wrap-around and bypass/DRAM mode switches under arbitrary producer/consumer "
              "rates and memory timing; oracle = stream equality, level <= depth at every cycle, no slot rewritten before its read was accepted, "
              "everything drains. Sampling, not proof.")
LEVEL_NOTE = "Trusted: compiled evaluator, the two-port NativeMemSlave group contract, stream agents."


def run(scn):
    d = scn["dut"]
    dw, pdw = d["dw"], d["port_dw"]
    depth_words = d["depth_words"]
    base_words = d.get("base_words", 0)
    core = scn.get("core")
    mk = lambda wp_, rp_: LiteDRAMFIFO(dw, base=base_words * (pdw // 8), depth=depth_words * (pdw // 8), write_port=wp_, read_port=rp_,
                                       with_bypass=d.get("bypass", False), pre_fifo_depth=d.get("pre", 16), post_fifo_depth=d.get("post", 16))
    if core:
        # variant "core": write and read port of the real core (crossbar + controller), DramRef as DRAM
        from ..corebench import core_host, CorePortView
        box = {}

        def attach(top, ports):
            box["dut"] = mk(ports[0], ports[1])
            top.submodules.frontend = box["dut"]
        tb, sim, viol, dram = core_host(core, Violations, attach)
        dut = box["dut"]
        wp, rp = tb.ports
    else:
        wp = LiteDRAMNativePort("write", 24, pdw)
        rp = LiteDRAMNativePort("read", 24, pdw)
        dut = mk(wp, rp)
        sim = Sim(dut, {"sys": 10000})
        viol = Violations(sim)
    grp = MemGroup()
    mw, mr = scn["wmem"], scn["rmem"]
    slot_busy = {}
    stats = {"words": 0, "dram_words_written": 0, "dram_words_read": 0, "wraps": 0, "max_level": 0, "mode_switches": 0,
             "level_full_cycles": 0, "bypassed_words": 0}

    def on_wcmd(we, a):
        stats["dram_words_written"] += 1
        if not (base_words <= a < base_words + depth_words):
            viol.add("write_out_of_range", "FIFO wrote DRAM word 0x%x outside [0x%x, 0x%x)" % (a, base_words, base_words + depth_words))
        if slot_busy.get(a):
            viol.add("overwrite_unread", "DRAM slot 0x%x rewritten before the read of its previous content was accepted" % a)
        slot_busy[a] = True
        if a == base_words + depth_words - 1:
            stats["wraps"] += 1

    def on_rcmd(we, a):
        stats["dram_words_read"] += 1
        if not slot_busy.get(a):
            viol.add("read_unwritten", "FIFO read DRAM slot 0x%x that holds no unread word" % a)
        slot_busy[a] = False
    if core:
        memw = CorePortView(sim, tb, dram, wp, name="wmem", on_cmd=on_wcmd)
        memr = CorePortView(sim, tb, dram, rp, name="rmem", on_cmd=on_rcmd)
    else:
      memw = NativeMemSlave(sim, wp, cmd_ready=mw.get("cmd_ready"), max_out=mw.get("max_out", 8), wl1=mw.get("wl1", 1), rl1=mw.get("rl1", 3),
                            extra=mw.get("extra"), viol=viol, name="wmem", on_cmd=on_wcmd, group=grp)
      memr = NativeMemSlave(sim, rp, cmd_ready=mr.get("cmd_ready"), max_out=mr.get("max_out", 8), wl1=mw.get("wl1", 1), rl1=mw.get("rl1", 3),
                            extra=mr.get("extra"), viol=viol, name="rmem", on_cmd=on_rcmd, group=grp)
    n = scn["n"]
    delays = scn.get("delays") or [0]
    mask = (1 << dw) - 1
    items = [{"data": ((i + 1) * 0x9E3779B1 + (i << 7)) & mask if dw > 8 else (i * 7 + 3) & 0xFF, "delay": delays[i % len(delays)]} for i in range(n)]
    out = []
    drv = StreamDriver(sim, dut.sink, items, ["data"])
    snk = StreamSink(sim, dut.source, ["data"], ready=scn.get("ready"), on_xfer=lambda x: out.append(x["data"]))
    for a in (drv, snk) + (() if core else (memw, memr)):
        sim.add_agent("sys", a)
    ctx = {"pump_entered": 0, "dram_entered": 0, "left_dram": 0}
    viol.extra = lambda: dict(ctx)
    i_level = sim.index(dut.dram_fifo.ctrl.level)
    i_state = sim.index(dut.fsm.state) if d.get("bypass") else None
    last_state = 0
    pats = (scn.get("ready") or []) + (mw.get("cmd_ready") or []) + (mr.get("cmd_ready") or [])
    stall = sum(a + b for a, b in pats) + 1
    ratio = pdw // dw
    cap = 1000 + sum(delays) * (n // len(delays) + 1) + n * (stall + 6) + (n // ratio + 4) * (max(mw.get("extra") or [0]) + max(mr.get("extra") or [0]) + 30)
    need_quiet = 200 + max([b for a, b in pats] or [0]) + max(mw.get("extra") or [0]) + max(mr.get("extra") or [0])
    if core:
        cap = 3 * cap + 5000
    S = sim.S
    cyc = 0
    quiet = 0
    # progress watchdog: nothing accepted at the input and nothing delivered at the output for longer than the longest stall of the
    # scenario plus a generous service time -> the run is stuck; it only shortens runs that would otherwise spin to the cap
    stall_cap = 4000 + 4 * max([a + b for a, b in pats] + [0]) + 2 * max(delays + [0]) + 20 * (max(mw.get("extra") or [0]) + max(mr.get("extra") or [0]))
    prog, prog_cyc = None, 0
    while cyc < cap:
        sim.step()
        cyc += 1
        if cyc % 64 == 0:
            pr = (drv.n, len(out))
            if pr != prog:
                prog, prog_cyc = pr, cyc
            elif cyc - prog_cyc > stall_cap:
                break
        lv = S[i_level]
        if lv > stats["max_level"]:
            stats["max_level"] = lv
        if lv > depth_words:
            viol.add("level_exceeds_depth", "FIFO level %d > depth %d DRAM words" % (lv, depth_words))
        if lv == depth_words:
            stats["level_full_cycles"] += 1
        if i_state is not None and S[i_state] != last_state:
            stats["mode_switches"] += 1
            last_state = S[i_state]
            if last_state >= 2:
                ctx["pump_entered"] += 1
            if last_state != 1 and ctx["dram_entered"]:
                ctx["left_dram"] += 1
            if last_state == 1:
                ctx["dram_entered"] += 1
        if drv.done() and len(out) >= n and memw.idle() and memr.idle():
            quiet += 1
            if quiet > 30:
                break
        else:
            quiet = 0
    exp = [it["data"] for it in items]
    for k, (a, b) in enumerate(zip(out, exp)):
        if a != b:
            viol.add("stream_order", "output word #%d is 0x%x, input word #%d was 0x%x" % (k, a, k, b))
            break
    if len(out) > n:
        viol.add("stream_duplicate", "%d words in, %d words out" % (n, len(out)))
    elif len(out) < n:
        viol.add("stream_loss_or_hang", "%d words given (%d accepted), %d delivered after %d cycles (level %d)" % (n, drv.n, len(out), cyc, S[i_level]))
    stats["core_variant_runs"] = 1 if core else 0
    stats["words"] = len(out)
    stats["bypassed_words"] = max(0, len(out) - stats["dram_words_read"] * ratio)
    return {"violations": viol.v, "stats": stats, "cycles": cyc, "sim_ps": sim.now, "digest": sim.digest(),
            "nontrivial": stats["dram_words_written"] > depth_words, "states": ["ratio%d bypass%d" % (ratio, int(bool(d.get("bypass"))))],
            "summary": {"dw": dw, "port_dw": pdw, "depth_words": depth_words, "n": n, "cycles": cyc, "bypass": bool(d.get("bypass"))}}


def gen(rng, tier, index):
    bypass = rng.random() < 0.6
    pdw = rng.choice([32, 64, 128])
    # ratio > 1 only in a minority of runs (see known finding fifo-bypass-mode-switch)
    ratio = rng.choice([1, 1, 1, 1, 1, 1, 2, 4, 8]) if bypass else 1
    dw = pdw // ratio
    if dw < 8:
        dw, ratio = pdw, 1
    depth_words = rng.choice([2, 3, 4, 8, 16, 32, 128])
    d = {"dw": dw, "port_dw": pdw, "depth_words": depth_words, "base_words": rng.choice([0, 16, 1000]), "bypass": bypass,
         "pre": rng.choice([2, 4, 16, 16]), "post": rng.choice([2, 4, 16, 16])}
    mult = rng.choice([3, 5, 10]) if tier == "quick" else rng.choice([3, 10, 50])
    n = min(depth_words * ratio * mult + rng.randint(0, 3 * ratio), 3000 if tier == "quick" else 20000)
    prod = rng.choice(["fast", "fast", "slow", "bursty"])
    if prod == "fast":
        delays = [0]
    elif prod == "slow":
        delays = [rng.choice([1, 2, 3, 5])]
    else:
        delays = [0] * rng.randint(3, 40) + [rng.randint(20, 300)]
    cons = rng.choice(["none", "light", "heavy", "storm", "late", "alternating"])
    if cons == "late":
        ready = [[0, rng.randint(100, 1500)], [rng.randint(50, 3000), rng.randint(0, 5)]]
    elif cons == "alternating":
        ready = [[rng.randint(20, 400), rng.randint(20, 400)] for _ in range(rng.randint(1, 4))]
    else:
        ready = gen_pattern(rng, cons)

    def mem():
        wl1 = rng.randint(1, 6)
        return {"cmd_ready": gen_pattern(rng), "max_out": rng.randint(3, 24), "wl1": wl1, "rl1": rng.randint(wl1 + 1, 14), "extra": gen_extra(rng)}
    scn = {"dut": d, "n": n, "delays": delays, "ready": ready, "wmem": mem(), "rmem": mem()}
    if rng.random() < 0.12:
        from .. import coregen
        core, info = coregen.gen_core(rng, nports=2, nranks=1)
        core["ports"] = [{"mode": "write"}, {"mode": "read"}]
        pdw2 = info["data_bytes"] * 8
        r_ = pdw // dw
        if pdw2 // r_ >= 8:
            d["port_dw"], d["dw"] = pdw2, pdw2 // r_
            d["base_words"] = rng.choice([0, 16, 1000])
            scn["n"] = min(n, 600)
            scn["core"] = core
    return scn


def classify(scn, viol):
    """Known finding fifo-bypass-mode-switch: with_bypass and a stream narrower than the port.  The bookkeeping of the DRAM -> BYPASS
    switch is wrong in two ways: (a) the FSM returns to BYPASS while the post-converter still holds the narrow words of the last wide
    word (bypassed words overtake them), (b) when the DRAM path runs empty with a partial wide word in the pre-converter the
    PUMP_PRECONVERTER / DRAIN_POSTCONVERTER states push filler words to the output (duplicates, zeros, sometimes a hang)."""
    d = scn["dut"]
    if d.get("bypass") and d["port_dw"] > d["dw"] and viol.get("left_dram", 0) > 0 and \
            viol.get("oracle") in ("stream_duplicate", "stream_order", "stream_loss_or_hang"):
        return "fifo-bypass-mode-switch"
    return None


def witness(fid):
    if fid != "fifo-bypass-mode-switch":
        return None
    m = {"cmd_ready": [], "max_out": 8, "wl1": 1, "rl1": 3, "extra": []}
    return {"property": ID, "seed": 0, "dut": {"base_words": 16, "bypass": True, "depth_words": 3, "dw": 16, "port_dw": 128, "post": 4, "pre": 16},
            "n": 75, "delays": [], "ready": [[20, 35]], "rmem": dict(m), "wmem": dict(m)}


def simplify(scn):
    import copy
    n = scn["n"]
    for m in (n // 2, n * 3 // 4, n - 8, n - 1):
        if 0 < m < n:
            c = copy.deepcopy(scn)
            c["n"] = m
            yield c
    for key in ("ready", "delays"):
        if scn.get(key):
            c = copy.deepcopy(scn)
            c[key] = []
            yield c
    for k in ("wmem", "rmem"):
        c = copy.deepcopy(scn)
        c[k] = {"cmd_ready": [], "max_out": 8, "wl1": 1, "rl1": 3, "extra": []}
        if c[k] != scn[k]:
            yield c
