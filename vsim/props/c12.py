"""C12 — DMA reader and writer stream exactly once, in order, without overrun.

Real code: litedram.frontend.dma.LiteDRAMDMAReader / LiteDRAMDMAWriter on a native port (NativeMemSlave stub with the
real crossbar's contract: read data returned regardless of ready) and on an AXI port (AXI memory slave stub).
"""
from migen import *

from litedram.common import LiteDRAMNativePort
from litedram.frontend.axi import LiteDRAMAXIPort
from litedram.frontend.dma import LiteDRAMDMAReader, LiteDRAMDMAWriter

from ..engine import Sim
from ..agents import StallCounter, stuck, NativeMemSlave, Violations, word_of, init_word, StreamDriver, StreamSink, Pattern
from .c07 import gen_pattern, gen_extra

ID = "C12"
LEVEL = "exploration"
TIERS = {"quick": {"runs": 1500}, "thorough": {"runs": 40000}}
RULE = ("one case = one seeded scenario (reader or writer, native or AXI port, fifo_depth 1..32, buffered or not; address/data stream with last "
        "marks and producer delays, consumer stall patterns incl. long stalls with the maximum number of reads in flight, memory latencies/stalls); "
        "non-trivial = >= 2 words transferred; distinct = distinct event-log digest")
ASSUMPTIONS = [
    "native memory side = NativeMemSlave: returns read data whatever rdata.ready says (an overrun shows as a lost word) and takes write data blindly",
    "AXI memory side = in-order AXI slave stub honouring valid/ready on all channels, single-beat bursts",
]
REAL = ["litedram.frontend.dma.LiteDRAMDMAReader", "litedram.frontend.dma.LiteDRAMDMAWriter", "litex stream.SyncFIFO"]
STUB = ["stream producer / consumer agents", "NativeMemSlave", "AXI memory slave stub"]
SHRINK = {"lists": ["items", "extra", "cmd_ready", "ready", "ar_ready", "r_lat", "aw_ready", "w_ready"], "zero": ["delay", "last"]}
LEVEL_TEXT = ("Seeded exploration of the real DMA engines with consumer stall storms and adversarial memory timing; oracle = exactly-once in-order "
              "stream equality, reservation invariant at every cycle, no word returned while the engine cannot take it. Sampling, not proof.")
LEVEL_NOTE = "Trusted: compiled evaluator, NativeMemSlave contract, AXI slave stub, stream agents."


class AXISlave:
    """In-order AXI memory slave (single-beat bursts). mem: raw address -> data."""

    def __init__(self, sim, axi, nbytes, ar_ready=None, r_lat=None, aw_ready=None, w_ready=None):
        ix = sim.index
        self.ar = {k: ix(getattr(axi.ar, k)) for k in ("valid", "ready", "addr", "id")}
        self.r = {k: ix(getattr(axi.r, k)) for k in ("valid", "ready", "data", "id", "last", "resp")}
        self.aw = {k: ix(getattr(axi.aw, k)) for k in ("valid", "ready", "addr", "id")}
        self.w = {k: ix(getattr(axi.w, k)) for k in ("valid", "ready", "data", "strb", "last")}
        self.b = {k: ix(getattr(axi.b, k)) for k in ("valid", "ready", "id", "resp")}
        self.nbytes = nbytes
        self.p_ar, self.p_aw, self.p_w = Pattern(ar_ready), Pattern(aw_ready), Pattern(w_ready)
        self.r_lat = r_lat or [1]
        self.mem = {}
        self.rq = []        # (due, addr, id)
        self.awq, self.wq, self.bq = [], [], []
        self.arr = self.awr = self.wr = 0
        self.rv = self.bv = 0
        self.cyc = 0
        self.nar = 0
        self.wlog = []
        self.rlog = []

    def word(self, a):
        v = self.mem.get(a)
        return init_word(a, self.nbytes) if v is None else v

    def idle(self):
        return not (self.rq or self.awq or self.wq or self.bq or self.rv or self.bv)

    def __call__(self, sim):
        S, p = sim.S, sim.poke
        c = self.cyc
        if self.arr and S[self.ar["valid"]]:
            self.rq.append((c + 1 + self.r_lat[self.nar % len(self.r_lat)], S[self.ar["addr"]], S[self.ar["id"]]))
            self.nar += 1
        if self.awr and S[self.aw["valid"]]:
            self.awq.append((S[self.aw["addr"]], S[self.aw["id"]]))
        if self.wr and S[self.w["valid"]]:
            self.wq.append((S[self.w["data"]], S[self.w["strb"]]))
        if self.rv and S[self.r["ready"]]:
            self.rv = 0
            p(self.r["valid"], 0)
        if self.bv and S[self.b["ready"]]:
            self.bv = 0
            p(self.b["valid"], 0)
        while self.awq and self.wq:
            a, i = self.awq.pop(0)
            d, strb = self.wq.pop(0)
            old = self.word(a)
            for b in range(self.nbytes):
                if (strb >> b) & 1:
                    old = (old & ~(0xFF << (8 * b))) | (d & (0xFF << (8 * b)))
            self.mem[a] = old
            self.wlog.append((a, d))
            sim.ev("axi_w", a, d)
            self.bq.append(i)
        if not self.rv and self.rq and self.rq[0][0] <= c:
            _, a, i = self.rq.pop(0)
            self.rv = 1
            v = self.word(a)
            self.rlog.append((a, v))
            sim.ev("axi_r", a, v)
            p(self.r["valid"], 1)
            p(self.r["data"], v)
            p(self.r["id"], i)
            p(self.r["last"], 1)
        if not self.bv and self.bq:
            self.bv = 1
            p(self.b["valid"], 1)
            p(self.b["id"], self.bq.pop(0))
        for pat, ch, attr in ((self.p_ar, self.ar, "arr"), (self.p_aw, self.aw, "awr"), (self.p_w, self.w, "wr")):
            v = pat.next()
            if v != getattr(self, attr):
                setattr(self, attr, v)
                p(ch["ready"], v)
        self.cyc = c + 1


class _Gate:
    """Calls the wrapped agent only once `box[0]` is set (consumer asleep until then)."""

    def __init__(self, inner, box):
        self.inner, self.box = inner, box

    def __call__(self, sim):
        if self.box[0]:
            self.inner(sim)


class _Disabler:
    """Reader `enable` seam: once the first k addresses are accepted (consumer asleep, words in flight / in the FIFO) drop `enable`,
    hold it low until the memory side is idle and the FIFO had time to flush, raise it again, then wake the consumer."""

    def __init__(self, sim, dut, drv, mem, k, hold, gate):
        self.i_en = sim.index(dut.enable)
        self.drv, self.mem, self.k, self.hold, self.gate = drv, mem, k, hold, gate
        self.st, self.t = 0, 0

    def __call__(self, sim):
        if self.st == 0 and self.drv.n >= self.k:
            self.st, self.t = 1, 3
        elif self.st == 1:
            self.t -= 1
            if self.t <= 0:
                sim.poke(self.i_en, 0)
                sim.ev("enable", 0)
                self.st, self.t = 2, self.hold
        elif self.st == 2:
            if self.mem.idle():
                self.t -= 1
            else:
                self.t = max(self.t, self.hold)
            if self.t <= 0:
                sim.poke(self.i_en, 1)
                sim.ev("enable", 1)
                self.st, self.t = 3, 2
        elif self.st == 3:
            self.t -= 1
            if self.t <= 0:
                self.gate[0] = 1
                self.st = 4


def run(scn):
    d = scn["dut"]
    kind, ptype, dw, depth = d["kind"], d["port"], d["dw"], d["depth"]
    nb = dw // 8
    if ptype == "native":
        port = LiteDRAMNativePort("both", 24, dw)
    else:
        port = LiteDRAMAXIPort(data_width=dw, address_width=24, id_width=1)
    cls = LiteDRAMDMAReader if kind == "reader" else LiteDRAMDMAWriter
    core = scn.get("core")
    m = scn["mem"]
    if core:
        # variant "core": the DMA engine sits on a port of the real core (crossbar + controller) with DramRef as DRAM
        from ..corebench import core_host, CorePortView
        box = {}

        def attach(top, ports):
            box["dut"] = cls(ports[0], fifo_depth=depth, fifo_buffered=d.get("buffered", False))
            top.submodules.frontend = box["dut"]
        tb, sim, viol, dram = core_host(core, Violations, attach)
        dut = box["dut"]
        port = tb.ports[0]
        nb = port.data_width // 8
        mem = CorePortView(sim, tb, dram, port)
        amask = (1 << tb.amap.aw) - 1
        for it in scn["items"]:
            it["address"] &= amask
    else:
        dut = cls(port, fifo_depth=depth, fifo_buffered=d.get("buffered", False))
        sim = Sim(dut, {"sys": 10000})
        viol = Violations(sim)
    if core:
        pass
    elif ptype == "native":
        mem = NativeMemSlave(sim, port, cmd_ready=m.get("cmd_ready"), max_out=m.get("max_out", 8), wl1=m.get("wl1", 1),
                             rl1=m.get("rl1", 3), extra=m.get("extra"), viol=viol)
    else:
        mem = AXISlave(sim, port, nb, ar_ready=m.get("ar_ready"), r_lat=m.get("r_lat"), aw_ready=m.get("aw_ready"), w_ready=m.get("w_ready"))
    items = scn["items"]
    stats = {"words": 0, "max_outstanding": 0, "consumer_stall_cycles": 0, "lasts": 0, "duplicate_addresses": 0,
             "fifo_full_hits": 0, "disable_runs": 0}
    seen = set()
    for it in items:
        if it["address"] in seen:
            stats["duplicate_addresses"] += 1
        seen.add(it["address"])
    out = []
    if kind == "reader":
        acc = [0]
        drv = StreamDriver(sim, dut.sink, items, ["address", "last"], on_xfer=lambda it: acc.__setitem__(0, acc[0] + 1))

        def on_out(x):
            out.append((x["data"], x["last"]))
        snk = StreamSink(sim, dut.source, ["data", "last"], ready=scn.get("ready"), on_xfer=on_out)
        sc_out = StallCounter(sim, dut.source.valid, dut.source.ready)
        sc_in = StallCounter(sim, dut.sink.valid, dut.sink.ready)
        agents = [drv, snk, mem]
        dis = scn.get("disable")
        if dis and not core:
            gate = [0]
            agents = [drv, _Gate(snk, gate), mem, _Disabler(sim, dut, drv, mem, dis["k"], dis["hold"], gate)]
        else:
            dis = None
    else:
        dis = None
        for k, it in enumerate(items):
            it["data"] = word_of(it["id"], nb)
        drv = StreamDriver(sim, dut.sink, items, ["address", "data", "last"])
        snk = None
        sc_out = None
        sc_in = StallCounter(sim, dut.sink.valid, dut.sink.ready)
        agents = [drv, mem]
    for a in agents:
        if a is not mem or not core:
            sim.add_agent("sys", a)
    pats = (scn.get("ready") or []) + (m.get("cmd_ready") or []) + (m.get("ar_ready") or []) + (m.get("aw_ready") or []) + (m.get("w_ready") or [])
    stall = sum(a + b for a, b in pats) + 1
    n = len(items)
    nflush = dis["k"] if dis else 0     # addresses accepted before the disable: flushed, never delivered
    cap = (1500 + 4 * depth if dis else 0) + 500 + sum(it.get("delay", 0) for it in items) + n * (stall + max(m.get("extra") or m.get("r_lat") or [0]) + m.get("rl1", 3) + 10)
    if core:
        cap += 2000 + 60 * n
    need_quiet = 60 + max([b for a, b in pats] or [0]) + max(m.get("extra") or m.get("r_lat") or [0]) + 20
    cyc = 0
    quiet = 0
    cap_out = depth + (1 if d.get("buffered") else 0)
    while cyc < cap:
        sim.step()
        cyc += 1
        if not cyc & 63 and stuck(sim, cyc):
            break       # no handshake anywhere for 60000 cycles: the run is stuck, do not spin to the cap
        if kind == "reader":
            o = max(0, drv.n - nflush) - len(out)
            if o > stats["max_outstanding"]:
                stats["max_outstanding"] = o
            if o > cap_out + 1:
                viol.add("reservation", "%d reads accepted and not yet delivered with fifo_depth %d" % (o, depth))
            fin = drv.done() and len(out) >= n - nflush and mem.idle()
        else:
            fin = drv.done() and mem.idle() and (len(mem.log) >= n if ptype == "native" else len(mem.wlog) >= n)
        if fin:
            quiet += 1
            if quiet > need_quiet:
                break
        else:
            quiet = 0
    if kind == "reader":
        exp = [(init_word(it["address"], nb), it.get("last", 0)) for it in items[nflush:]]
        for k, (a, b) in enumerate(zip(out, exp)):
            if a != b:
                viol.add("read_stream", "output word #%d%s is (0x%x, last=%d), expected (0x%x, last=%d) for address 0x%x"
                         % (k, " after re-enable" if dis else "", a[0], a[1], b[0], b[1], items[nflush + k]["address"]))
                break
        stats["disable_runs"] = 1 if dis else 0
        n -= nflush
        if len(out) != n:
            viol.add("read_count" if drv.done() else "hang", "%d addresses given (%d accepted), %d words delivered after %d cycles"
                     % (n, drv.n, len(out), cyc))
        stats["words"] = len(out)
        stats["lasts"] = sum(1 for x in out if x[1])
    else:
        wl = [(x[1], x[2]) for x in mem.log if x[0] == "w"] if ptype == "native" else list(mem.wlog)
        exp = [(it["address"], it["data"]) for it in items]
        for k, (a, b) in enumerate(zip(wl, exp)):
            if a != b:
                viol.add("write_stream", "memory write #%d is (addr 0x%x, data 0x%x), expected pair (0x%x, 0x%x)" % (k, a[0], a[1], b[0], b[1]))
                break
        if len(wl) != n or not drv.done():
            viol.add("write_count" if drv.done() else "hang", "%d pairs given (%d accepted), %d memory writes after %d cycles" % (n, drv.n, len(wl), cyc))
        if ptype == "native":
            ncmd = mem.ncmd
            if ncmd != n and drv.done():
                viol.add("cmd_count", "%d write commands for %d pairs" % (ncmd, n))
        final = {}
        for a, dta in exp:
            final[a] = dta
        for a, dta in sorted(final.items()):
            got = mem.mem.get(a)
            if got != dta:
                viol.add("final_image", "address 0x%x holds %s, last pair written there carries 0x%x" % (a, "nothing" if got is None else "0x%x" % got, dta))
                break
        stats["words"] = len(wl)
    stats["core_variant_runs"] = 1 if core else 0
    stats["consumer_stall_cycles"] = sc_out.n if sc_out else 0
    stats["fifo_full_hits"] = sc_in.n        # cycles in which the DMA refused a request (FIFO / reservation full or port busy)
    return {"violations": viol.v, "stats": stats, "cycles": cyc, "sim_ps": sim.now, "digest": sim.digest(),
            "nontrivial": stats["words"] >= 2, "states": ["%s %s d%d" % (kind, ptype, depth)],
            "summary": {"kind": kind, "port": ptype, "depth": depth, "items": n, "cycles": cyc}}


def gen(rng, tier, index):
    scn = _gen(rng, tier, index)
    if scn["dut"]["port"] == "native" and rng.random() < 0.15:
        from .. import coregen
        core, info = coregen.gen_core(rng, nports=1, nranks=1)
        scn["core"] = core
        scn["dut"]["dw"] = info["data_bytes"] * 8
        if len(scn["items"]) > 150:
            scn["items"] = scn["items"][:150]
            scn["items"][-1]["last"] = 1
    return scn


def _gen(rng, tier, index):
    kind = rng.choice(["reader", "reader", "writer"])
    ptype = rng.choice(["native", "native", "axi"])
    dw = rng.choice([8, 32, 64, 128])
    depth = rng.choice([1, 2, 3, 4, 8, 16, 16, 32])
    d = {"kind": kind, "port": ptype, "dw": dw, "depth": depth, "buffered": rng.random() < 0.3 and depth >= 2}
    n = rng.choice([1, 3, 8, 24, 60, 150]) if tier == "quick" else rng.choice([3, 10, 40, 120, 400])
    am = rng.choice(["seq", "seq", "rand", "dup"])
    # word addresses over the whole range of the port (24 address bits; byte addresses on an AXI port): low, straddling the middle
    # (top address bit), and up to the very top
    awb = 24 if ptype == "native" else 24 - (dw // 8).bit_length() + 1
    top = 1 << awb
    base = rng.choice([rng.getrandbits(min(16, awb - 1)), rng.getrandbits(min(16, awb - 1)), top - n - 4 - rng.getrandbits(6),
                       top // 2 - rng.randrange(n + 1), top // 2 + rng.getrandbits(8)])
    base = max(0, min(base, top - n - 4))
    dlm = rng.choice(["zero", "zero", "some"])
    items = []
    for i in range(n):
        if am == "seq":
            a = base + i
        elif am == "rand":
            a = rng.getrandbits(awb)
        else:
            a = base + rng.randrange(4)
        it = {"id": i + 1, "address": a, "last": 1 if (i == n - 1 or rng.random() < 0.05) else 0}
        if dlm == "some":
            it["delay"] = rng.choice([0, 0, 0, 1, 4, 20])
        items.append(it)
    scn = {"dut": d, "items": items}
    if kind == "reader":
        k = rng.choice(["none", "light", "heavy", "storm", "storm", "late"])
        if k == "late":
            # consumer asleep while the maximum number of reads gets in flight, then drains slowly
            scn["ready"] = [[0, rng.randint(40, 200)]] + [[1, rng.randint(0, 6)] for _ in range(rng.randint(1, 4))]
        else:
            scn["ready"] = gen_pattern(rng, k)
        if rng.random() < 0.12 and n >= 3:
            # disable / flush / re-enable with words in flight and a sleeping consumer: the stream after re-enable must be exactly the
            # addresses accepted after it (data, order, last marks); the first k addresses are flushed
            k = rng.randint(1, min(depth, n - 2))
            for it in items[:k]:
                it["delay"] = 0
            items[k]["delay"] = 1200 + 4 * depth
            scn["disable"] = {"k": k, "hold": depth + 4 + rng.randint(0, 30)}
    if ptype == "native":
        wl1 = rng.randint(1, 6)
        scn["mem"] = {"cmd_ready": gen_pattern(rng), "max_out": rng.randint(3, 40), "wl1": wl1, "rl1": rng.randint(wl1 + 1, 14),
                      "extra": gen_extra(rng) if rng.random() < 0.7 else [rng.choice([40, 80])] + [0] * rng.randint(3, 50)}
    else:
        scn["mem"] = {"ar_ready": gen_pattern(rng), "r_lat": [rng.choice([0, 1, 2, 5, 20]) for _ in range(rng.randint(1, 6))],
                      "aw_ready": gen_pattern(rng), "w_ready": gen_pattern(rng)}
    return scn
