"""C05 — no deadlock, no starved port, no starved direction."""
from ..corebench import run_core
from .. import coregen
from . import _corecommon as cc
from ._corecommon import LEVEL, REAL, STUB, SHRINK, LEVEL_NOTE, simplify  # noqa

ID = "C05"
TIERS = {"quick": {"runs": 64}, "thorough": {"runs": 600}}
WANT = ("c05",)
RULE = ("one case = one seeded whole-core scenario with a sparse victim port and adversarial ports (continuous same-bank/same-row stream, "
        "alternating rows, one direction only); per command: cycles from first offer to acceptance and from acceptance to its data strobe / data must "
        "stay below B(config); non-trivial = victim issued >= 2 commands while an adversary was streaming; distinct = distinct event-log digest")
ASSUMPTIONS = cc.COMMON_ASSUMPTIONS + [
    "B = 4*[nports*(cmd_buffer_depth+2)*T_cmd + read_time + write_time + postponing*(tRP+tRFC)], T_cmd = tRP+tRCD+tRAS+tRC+tFAW+read_latency+tWTR+write latency: "
    "a generous constant of the configuration only; runs are longer than 2B"]
LEVEL_TEXT = ("Seeded exploration with adversarial schedules and a configuration-only wait bound (factor 4 above a worst-case estimate); "
              "also drain-after-traffic. Sampling, not proof; bounded-liveness, not liveness.")


def gen(rng, tier, index):
    core, info = coregen.gen_core(rng, nports=rng.choice([2, 2, 3, 4, 8]))
    amap = coregen.amap_of(core, info)
    nports = len(core["ports"])
    nb = 1 << info["bankbits"]
    nrows = 1 << info["rowbits"]
    # mode: where the adversaries aim relative to the victim's banks
    mode = rng.choice(["otherbank", "otherbank", "direction", "direction", "samebank_bursty", "samebank_bursty", "samebank_continuous"])
    vbanks = rng.sample(range(nb), rng.choice([1, 1, min(2, nb - 1)]) if nb > 1 else 1)
    others = [b for b in range(nb) if b not in vbanks] or vbanks
    ranks = range(core["nranks"])

    def hot_of(banks, nrow):
        return [(r, b, rng.choice([0, nrows - 1, rng.randrange(nrows)])) for r in ranks for b in banks for _ in range(nrow)]

    hot_v = hot_of(vbanks, rng.choice([1, 2]))
    ports = []
    vn = rng.choice([3, 6, 12])
    # mode "direction": every adversary streams one direction (never drying up: row hits on one bank, row changes on another,
    # so that commands and activates of that direction are always there), the victim needs the other direction
    adv_dir = rng.choice([0.0, 1.0])
    ports.append({"ops": coregen.gen_port_ops(rng, amap, info, vn, hot_v, style="rand", delays="gaps", id0=1,
                                              wmix=(1.0 - adv_dir) if mode == "direction" else rng.choice([0.0, 1.0, 0.5])), "loop": True})
    depth = core["ctrl"]["cmd_buffer_depth"]
    for i in range(1, nports):
        kind = rng.choice(["samerow", "hammer", "pingpong", "rand"])
        wmix = rng.choice([0.0, 1.0, 0.5, 1.0, 0.0])
        n = rng.choice([50, 200, 1000])
        if mode == "direction":
            kind = ["hammer", "pingpong", "samerow", "pingpong"][(i - 1) % 4]
            wmix = adv_dir
            ob = others[(i - 1) % len(others)]
            hot_a = hot_of([ob], 2 if kind == "pingpong" else 1)
        elif mode == "otherbank":
            hot_a = hot_of(rng.sample(others, rng.choice([1, min(2, len(others))])), rng.choice([1, 2, 3]))
        else:
            hot_a = hot_of(vbanks if rng.random() < 0.7 else list(range(nb)), rng.choice([1, 2]))
        ops = coregen.gen_port_ops(rng, amap, info, n, hot_a, style=kind, wmix=wmix, delays="zero", id0=1 + 100000 * i)
        if mode == "samebank_bursty":
            k = rng.randint(1, depth)
            pause = rng.randint(30, 200)
            for j in range(0, len(ops), k):
                ops[j]["delay"] = pause
        ports.append({"ops": ops, "loop": True})
    return {"core": core, "ports": ports, "mode": mode,
            "limits": {"run_for_bounds": 2.2, "tail": 10 ** 9, "wait_bound": "auto", "hang_ok": True, "drain_after": 1.5}}


def classify(scn, viol):
    """Known finding xbar-bank-hold: a command waits for acceptance while the target bank's arbiter never
    (or fewer times than there are ports) gets the chance to rotate because the granted master keeps the
    bank valid/locked."""
    if viol.get("oracle") == "c05.wait_bound" and viol.get("kind") == "cmd" and viol.get("releases", 10 ** 9) < viol.get("nports", 0):
        return "xbar-bank-hold"
    # known finding mux-chooser-restart: the column-command chooser passed a pending request over more often than a round robin can
    if viol.get("oracle") == "c05.wait_bound" and viol.get("kind") == "resp" and viol.get("nbm", 0) and viol.get("overtaken", 0) > viol["nbm"]:
        return "mux-chooser-restart"
    return None


MUX_WITNESS = {"core": {"clk_period_ps": 3628, "ctrl": {"bank_byte_alignment": 0, "cmd_buffer_buffered": False, "cmd_buffer_depth": 2, "read_time": 4, "refresh_postponing": 8, "with_auto_precharge": True, "with_refresh": True, "write_time": 16}, "databits": 32, "module": {"cls": "M393A2K40DB3", "kind": "lib", "speedgrade": None}, "nranks": 2, "phy": {"from": "model"}, "ports": [{"mode": "both"}, {"mode": "both"}, {"mode": "both"}], "rate": "1:4"}, "index": 0, "limits": {"drain_after": 1.5, "hang_ok": True, "run_for_bounds": 2.2, "tail": 1000000000, "wait_bound": "auto"}, "mode": "witness", "ports": [{"loop": True, "ops": [{"addr": 76563405, "id": 101000, "we": 0}]}, {"loop": True, "ops": [{"addr": 536870607, "id": 200050, "we": 0}]}, {"loop": True, "ops": [{"addr": 3025, "id": 300050, "sel": 1270107138, "we": 1}]}], "property": "C05", "seed": 0}


def witness(fid):
    if fid == "mux-chooser-restart":
        # minimised from VERIF_SEED=30 run 56: two ports each re-reading one word (bank machines 7 and 8) and one port re-writing
        # one word (bank machine 23), read_time=4: every read window serves bank machine 7 again
        import copy
        return copy.deepcopy(MUX_WITNESS)
    if fid != "xbar-bank-hold":
        return None
    import random
    rng = random.Random(5)
    core, info = coregen.gen_core(rng, lib=False, nports=2, memtype="SDR", nranks=1)
    amap = coregen.amap_of(core, info)
    hot = [(0, 0, 1)]
    victim = coregen.gen_port_ops(rng, amap, info, 2, hot, style="rand", delays="zero", id0=1, wmix=0.0)
    victim[0]["delay"] = 50
    adv = coregen.gen_port_ops(rng, amap, info, 100, hot, style="hammer", delays="zero", id0=100001, wmix=1.0)
    return {"core": core, "ports": [{"ops": victim}, {"ops": adv, "loop": True}], "mode": "witness", "property": ID, "seed": 0,
            "limits": {"run_for_bounds": 1.5, "tail": 10 ** 9, "wait_bound": "auto", "hang_ok": True}}


def run(scn):
    return run_core(scn, WANT)
