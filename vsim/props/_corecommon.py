"""Shared pieces of the whole-core property modules C01..C06."""
import copy

LEVEL = "exploration"
REAL = ["litedram.core.LiteDRAMCore: DFIInjector (hardware mode), LiteDRAMController (Refresher, BankMachines, Multiplexer), LiteDRAMCrossbar",
        "litedram.modules ns->cycle conversion (library and synthetic datasheet entries)", "litex/migen library cells"]
STUB = ["NativeMaster per port", "DramRef (DRAM + PHY) on the DFI bus"]
SHRINK = {"lists": ["ops"], "zero": ["delay"]}
LEVEL_NOTE = ("Trusted: compiled evaluator (cross-checked against migen.sim), DramRef (JEDEC command semantics, datasheet tables read raw), "
              "AddrMap, NativeMaster contract; refresh-feasible and address-bus-consistent configurations only.")
COMMON_ASSUMPTIONS = [
    "masters hold each command until accepted, queue write data no later than the command, rdata.ready=1",
    "DRAM+PHY = DramRef: independent reference on the DFI bus (write data sampled write_latency after wrdata_en, read data returned read_latency after rddata_en, read_latency > write_latency)",
    "geometries whose address bus carries A10 and the shifted column bits (rowbits >= 11, rowbits > colbits when colbits > 10)",
]


def simplify(scn):
    n = len(scn["ports"])
    for i in range(n - 1, -1, -1):
        if n > 1:
            c = copy.deepcopy(scn)
            del c["ports"][i]
            del c["core"]["ports"][i]
            yield c
