"""C11 — Avalon-MM port: bursts and single accesses keep memory semantics.

Real code: litedram.frontend.avalon.LiteDRAMAvalonMM2Native (FSM, command/data FIFOs, optional width converter)
between an Avalon-MM master agent and the NativeMemSlave stub.
"""
from migen import *

from litex.soc.interconnect import avalon as lavalon

from litedram.common import LiteDRAMNativePort
from litedram.frontend.avalon import LiteDRAMAvalonMM2Native

from ..engine import Sim
from ..agents import stuck, NativeMemSlave, Violations, word_of, init_byte, RefMem
from .c07 import gen_pattern, gen_extra

ID = "C11"
LEVEL = "exploration"
TIERS = {"quick": {"runs": 1200}, "thorough": {"runs": 30000}}
RULE = ("one case = one seeded scenario (avalon:port width ratio, max_burst_length, base address; list of single/burst writes and reads with "
        "addresses, burst counts, byte enables, idle gaps between the beats of a write burst (short and long enough to drain the bridge's FIFOs), "
        "memory-side latencies and stalls); non-trivial = >= 2 accesses completed; distinct = distinct event-log digest")
ASSUMPTIONS = [
    "legal Avalon-MM master: address and burstcount meaningful on the first beat of a burst only (then scrambled), write may be deasserted between "
    "beats of a burst, every asserted beat is held until waitrequest is low, burst counts 1..max_burst_length",
    "memory side = NativeMemSlave (real crossbar's contract)",
]
REAL = ["litedram.frontend.avalon.LiteDRAMAvalonMM2Native", "litedram.frontend.adapter converters (width ratio != 1)", "litex stream.SyncFIFO"]
STUB = ["Avalon-MM master agent", "NativeMemSlave"]
SHRINK = {"lists": ["ops", "beats", "extra", "cmd_ready"], "zero": ["gap", "delay"]}
LEVEL_TEXT = ("Seeded exploration of the real Avalon bridge with idle gaps landing anywhere in write bursts and adversarial memory timing; oracle = "
              "exact beat counts, per-beat data of consecutive addresses, reference memory final image. Sampling, not proof.")
LEVEL_NOTE = "Trusted: compiled evaluator, NativeMemSlave contract, the Avalon master agent's legality."


class AvalonMaster:
    """ops: {"kind": "w", "addr", "beats": [{"id", "be", "gap"}], "delay"} | {"kind": "r", "addr", "n", "delay"}"""

    def __init__(self, sim, av, ops, nbytes, on_wbeat, on_rcmd, on_rdata, scramble):
        ix = sim.index
        self.i = {k: ix(getattr(av, k)) for k in ("address", "writedata", "readdata", "readdatavalid", "byteenable", "read", "write",
                                                  "waitrequest", "burstcount")}
        self.ops = ops
        self.nbytes = nbytes
        self.k = 0
        self.beat = 0
        self.state = "idle"
        self.wait = ops[0].get("delay", 0) if ops else 0
        self.on_wbeat, self.on_rcmd, self.on_rdata = on_wbeat, on_rcmd, on_rdata
        self.scramble = scramble
        self.nacc = 0

    def done(self):
        return self.k >= len(self.ops) and self.state == "idle"

    def _drive_wbeat(self, sim, op, first):
        p, I = sim.poke, self.i
        b = op["beats"][self.beat]
        p(I["write"], 1)
        p(I["read"], 0)
        p(I["writedata"], word_of(b["id"], self.nbytes))
        p(I["byteenable"], b.get("be", (1 << self.nbytes) - 1))
        if first:
            p(I["address"], op["addr"])
            p(I["burstcount"], len(op["beats"]))
        else:
            p(I["address"], (op["addr"] ^ self.scramble) & 0x3FFFFFFF)
            p(I["burstcount"], (self.scramble >> 3) & 0xFF)

    def __call__(self, sim):
        S, I, p = sim.S, self.i, sim.poke
        if S[I["readdatavalid"]]:
            self.on_rdata(S[I["readdata"]])
        if self.state == "wbeat":
            if not S[I["waitrequest"]]:
                op = self.ops[self.k]
                self.on_wbeat(op, self.beat)
                self.beat += 1
                if self.beat >= len(op["beats"]):
                    self.state = "idle"
                    self.k += 1
                    self.nacc += 1
                    p(I["write"], 0)
                    self.wait = self.ops[self.k].get("delay", 0) if self.k < len(self.ops) else 0
                else:
                    g = op["beats"][self.beat].get("gap", 0)
                    if g:
                        self.state = "wgap"
                        self.wait = g
                        p(I["write"], 0)
                    else:
                        self._drive_wbeat(sim, op, False)
                        return
        elif self.state == "wgap":
            self.wait -= 1
            if self.wait <= 0:
                self.state = "wbeat"
                self._drive_wbeat(sim, self.ops[self.k], False)
            return
        elif self.state == "rcmd":
            if not S[I["waitrequest"]]:
                op = self.ops[self.k]
                self.on_rcmd(op)
                self.state = "idle"
                self.k += 1
                self.nacc += 1
                p(I["read"], 0)
                self.wait = self.ops[self.k].get("delay", 0) if self.k < len(self.ops) else 0
        if self.state == "idle" and self.k < len(self.ops):
            if self.wait > 0:
                self.wait -= 1
                return
            op = self.ops[self.k]
            if op["kind"] == "w":
                self.beat = 0
                self.state = "wbeat"
                self._drive_wbeat(sim, op, True)
            else:
                self.state = "rcmd"
                p(I["read"], 1)
                p(I["write"], 0)
                p(I["address"], op["addr"])
                p(I["burstcount"], op["n"])


def run(scn):
    d = scn["dut"]
    adw, pdw = d["av_dw"], d["port_dw"]
    anb, pnb = adw // 8, pdw // 8
    base = d.get("base", 0)
    paw = d.get("paw", 20)
    av = lavalon.AvalonMMInterface(data_width=adw, adr_width=30)
    m = scn["mem"]
    core = scn.get("core")
    if core:
        from ..corebench import core_host, CorePortView

        def attach(top, ports):
            top.submodules.frontend = LiteDRAMAvalonMM2Native(av, ports[0], max_burst_length=d.get("max_burst", 16), base_address=base)
        tb, sim, viol, dram = core_host(core, Violations, attach)
        port = tb.ports[0]
        assert port.data_width == pdw and tb.amap.aw == paw
        mem = CorePortView(sim, tb, dram, port)
    else:
        port = LiteDRAMNativePort("both", paw, pdw)
        dut = LiteDRAMAvalonMM2Native(av, port, max_burst_length=d.get("max_burst", 16), base_address=base)
        sim = Sim(dut, {"sys": 10000})
        viol = Violations(sim)
        mem = NativeMemSlave(sim, port, cmd_ready=m.get("cmd_ready"), max_out=m.get("max_out", 8), wl1=m.get("wl1", 1),
                             rl1=m.get("rl1", 3), extra=m.get("extra"), viol=None)
    ref = RefMem()
    aoff = base // anb
    expect = []
    got = [0]
    stats = {"single_writes": 0, "burst_writes": 0, "single_reads": 0, "burst_reads": 0, "write_beats": 0, "read_beats": 0,
             "gaps_in_bursts": 0, "long_gaps": 0, "partial_be": 0}

    def on_wbeat(op, j):
        a = (op["addr"] - aoff + j) & 0x3FFFFFFF
        b = op["beats"][j]
        be = b.get("be", (1 << anb) - 1)
        stats["write_beats"] += 1
        if be != (1 << anb) - 1:
            stats["partial_be"] += 1
        ref.write(a, anb, word_of(b["id"], anb), be)
        sim.ev("avw", a, b["id"], be)

    def on_rcmd(op):
        a0 = (op["addr"] - aoff) & 0x3FFFFFFF
        for j in range(op["n"]):
            expect.append((a0 + j, ref.read(a0 + j, anb)))
        sim.ev("avr", a0, op["n"])

    def on_rdata(data):
        k = got[0]
        got[0] += 1
        stats["read_beats"] += 1
        sim.ev("avd", data)
        if k >= len(expect):
            viol.add("spurious_readdatavalid", "readdatavalid beat (0x%x) with no read beat outstanding" % data)
            return
        a, v = expect[k]
        if data != v:
            viol.add("read_data", "read beat #%d (avalon word 0x%x) returned 0x%x, expected 0x%x" % (k, a, data, v))

    ops = scn["ops"]
    for op in ops:
        if op["kind"] == "w":
            stats["burst_writes" if len(op["beats"]) > 1 else "single_writes"] += 1
            for b in op["beats"][1:]:
                if b.get("gap", 0):
                    stats["gaps_in_bursts"] += 1
                    if b["gap"] >= 8:
                        stats["long_gaps"] += 1
        else:
            stats["burst_reads" if op["n"] > 1 else "single_reads"] += 1
    from ..agents import StateSampler
    fe = tb.dut.frontend if core else dut
    samp = StateSampler(sim, [fe.fsm.state, av.read, av.write, av.waitrequest, av.readdatavalid, port.cmd.valid, port.cmd.ready, port.wdata.ready, port.rdata.valid])
    mas = AvalonMaster(sim, av, ops, anb, on_wbeat, on_rcmd, on_rdata, scn.get("scramble", 0x155555))
    sim.add_agent("sys", mas)
    if not core:
        sim.add_agent("sys", mem)
    ratio = max(1, adw // pdw)
    stall = sum(b for a, b in (m.get("cmd_ready") or [])) + 1
    nbeats = sum(len(o["beats"]) if o["kind"] == "w" else o["n"] for o in ops)
    gaps = sum(b.get("gap", 0) for o in ops if o["kind"] == "w" for b in o["beats"]) + sum(o.get("delay", 0) for o in ops)
    cap = 600 + gaps + nbeats * (ratio * (stall + 8 + max(m.get("extra") or [0]) + m.get("rl1", 3) + m.get("wl1", 1)) + 14)
    need_quiet = 60 + max([b for a, b in (m.get("cmd_ready") or [])] or [0]) + max(m.get("extra") or [0]) + m.get("rl1", 3) + 8 * ratio
    if core:
        cap = 2 * cap + 3000 + 100 * ratio * nbeats
        need_quiet += 250
    cyc = 0
    quiet = 0
    while cyc < cap:
        sim.step()
        cyc += 1
        if not cyc & 63 and stuck(sim, cyc):
            break       # no handshake anywhere for 60000 cycles: the run is stuck, do not spin to the cap
        if mas.done() and mem.idle() and got[0] >= len(expect):
            quiet += 1
            if quiet > need_quiet:
                break
        else:
            quiet = 0
    if not (mas.done() and mem.idle() and got[0] >= len(expect)):
        viol.add("hang", "not completed after %d cycles: access %d/%d (state %s, beat %d), read beats %d/%d, memory idle=%s"
                 % (cyc, mas.k, len(ops), mas.state, mas.beat, got[0], len(expect), mem.idle()))
    else:
        nbad = 0
        for A in sorted(mem.mem):
            w = mem.mem[A]
            for b in range(pnb):
                if (w >> (8 * b)) & 0xFF != ref.byte(A * pnb + b):
                    nbad += 1
                    if nbad <= 2:
                        viol.add("final_image", "memory byte 0x%x (word 0x%x byte %d) holds 0x%02x, reference says 0x%02x"
                                 % (A * pnb + b, A, b, (w >> (8 * b)) & 0xFF, ref.byte(A * pnb + b)))
        for ba in sorted(ref.m):
            if ba // pnb not in mem.mem and ref.m[ba] != init_byte(ba):
                viol.add("final_image", "byte 0x%x written over avalon never reached memory" % ba)
                break
    stats["core_variant_runs"] = 1 if core else 0
    return {"violations": viol.v, "stats": stats, "cycles": cyc, "sim_ps": sim.now, "digest": sim.digest(),
            "nontrivial": mas.nacc >= 2, "states": samp.states("av%d:%d " % (adw, pdw)),
            "summary": {"av_dw": adw, "port_dw": pdw, "ops": len(ops), "cycles": cyc}}


def gen(rng, tier, index):
    k = rng.choice([-3, -2, -1, -1, 0, 0, 0, 1, 1, 2, 3])
    core = None
    paw = 20
    if rng.random() < 0.12:
        from .. import coregen
        core, info = coregen.gen_core(rng, nports=1, nranks=1)
        pdw = info["data_bytes"] * 8
        paw = coregen.amap_of(core, info).aw
        k = rng.choice([kk for kk in (-3, -2, -1, 0, 1, 2) if 8 <= (pdw << kk if kk >= 0 else pdw >> -kk) <= 512])
        adw = pdw << k if k >= 0 else pdw >> -k
    elif k >= 0:
        pdw = rng.choice([w for w in (8, 16, 32, 64) if w << k <= 256])
        adw = pdw << k
    else:
        adw = rng.choice([w for w in (8, 16, 32, 64) if w << (-k) <= 512])
        pdw = adw << (-k)
    anb = adw // 8
    base = rng.choice([0, 0, 0x1000, 0x40000000])
    if base // anb >= (1 << 29):
        base = 0x1000      # keep base + window inside the 30-bit bus address space (an address that wraps below the base is outside the window)
    mb = rng.choice([2, 4, 8, 16, 16])
    d = {"av_dw": adw, "port_dw": pdw, "base": base, "paw": paw, "max_burst": mb}
    aoff = base // anb
    top = (1 << paw) // max(1, adw // pdw) if adw >= pdw else (1 << paw) * (pdw // adw)
    top = min(top, 1 << 29)
    pool = [rng.getrandbits(10) for _ in range(4)] + [top - 20, top // 2, top // 2 - 3]
    hot = rng.sample(pool, rng.choice([1, 2, 3]))
    n = rng.choice([1, 2, 4, 8, 20]) if tier == "quick" else rng.choice([2, 5, 12, 30])
    wmix = rng.choice([0.0, 0.3, 0.5, 0.7, 1.0])
    gapm = rng.choice(["none", "none", "short", "long", "mix"])
    bem = rng.choice(["full", "full", "rand"])
    dlm = rng.choice(["zero", "zero", "some"])
    ops = []
    wid = 1
    for i in range(n):
        a = (rng.choice(hot) + rng.randint(0, 12)) % (top - mb) + aoff
        dl = 0 if dlm == "zero" else rng.choice([0, 0, 2, 10, 40])
        if rng.random() < wmix:
            nb = rng.choice([1, 1, 2, 3, mb, rng.randint(1, mb)])
            beats = []
            for j in range(nb):
                b = {"id": wid}
                wid += 1
                if bem == "rand" and rng.random() < 0.5:
                    b["be"] = rng.getrandbits(anb)
                if j and gapm != "none":
                    if gapm == "short":
                        b["gap"] = rng.choice([0, 0, 1, 2])
                    elif gapm == "long":
                        b["gap"] = rng.choice([0, 0, 12, 30, 80])
                    else:
                        b["gap"] = rng.choice([0, 0, 1, 3, 12, 40])
                beats.append(b)
            ops.append({"kind": "w", "addr": a, "beats": beats, "delay": dl})
        else:
            ops.append({"kind": "r", "addr": a, "n": rng.choice([1, 1, 2, mb, rng.randint(1, mb)]), "delay": dl})
    wl1 = rng.randint(1, 6)
    mem = {"cmd_ready": gen_pattern(rng), "max_out": rng.randint(3, 20), "wl1": wl1, "rl1": rng.randint(wl1 + 1, 14), "extra": gen_extra(rng)}
    scn = {"dut": d, "mem": mem, "ops": ops, "scramble": rng.getrandbits(24)}
    if core:
        scn["core"] = core
    return scn
