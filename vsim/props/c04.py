"""C04 — refresh is never starved and keeps the datasheet refresh rate; ZQCS recurs at its period."""
from ..corebench import run_core
from .. import coregen
from . import _corecommon as cc
from ._corecommon import LEVEL, REAL, STUB, SHRINK, LEVEL_NOTE, simplify  # noqa

ID = "C04"
TIERS = {"quick": {"runs": 64}, "thorough": {"runs": 600}}
WANT = ("c04", "c02.ref_with_open_bank", "c02.zqc_with_open_bank", "c05.hang")
RULE = ("one case = one seeded whole-core scenario under saturating / single-bank / all-write / all-read / ping-pong / idle traffic over many "
        "refresh intervals; REF and ZQC timestamps from the DFI bus are compared with the datasheet tREFI in ns (not the cycle count handed to the "
        "controller); non-trivial = >= 5 refreshes observed; distinct = distinct event-log digest")
ASSUMPTIONS = cc.COMMON_ASSUMPTIONS + [
    "k-th REF no later than (k + postponing) * tREFI_ns + L, L = 2*(worst-case bank drain + postponing*(tRP+tRFC)) + 64 cycles, a constant of the configuration",
    "refresh-feasible configurations: postponing*(tRP+tRFC) + L <= postponing*tREFI/2",
    "steady-rate oracle: >= 16 consecutive equally spaced, equally sized refresh bursts are taken to show the refresher's period (it is a free-running "
    "counter); that period must not exceed the datasheet tREFI per refresh"]
LEVEL_TEXT = ("Seeded exploration over long horizons (tens to hundreds of refresh intervals) with saturating traffic; oracle on REF/ZQC times against "
              "the datasheet interval. Sampling, not proof.")


def gen(rng, tier, index):
    lib = rng.random() < 0.35
    rate = rng.random() < 0.25
    if rate:
        # refresh-rate scenario: tREFI a hair above a whole number of cycles, many intervals, light traffic —
        # an interval rounded up by the ns->cycle conversion accumulates ~1 cycle of lateness per refresh
        core, info = coregen.gen_core(rng, lib=False, zqcs=False, nports=1)
        P = core["clk_period_ps"] / 1000.0
        n = rng.randint(102, 130)
        core["module"]["tech"]["tREFI"] = round((n + rng.choice([0.02, 0.05, 0.1, 0.3, 0.55, 0.8, 0.97])) * P, 4)
        core["ctrl"]["refresh_postponing"] = rng.choice([1, 1, 2])
        info["trefi_cyc"] = n + 1
    else:
        core, info = coregen.gen_core(rng, lib=lib, zqcs=rng.random() < 0.6, nports=rng.choice([1, 2, 2, 4]))
    amap = coregen.amap_of(core, info)
    hot = coregen.gen_hot(rng, info, core["nranks"])
    trefi = info["trefi_cyc"]
    intervals = rng.choice([30, 50, 80]) if tier == "quick" else rng.choice([50, 100, 200, 400])
    if rate:
        intervals = 380
    cycles = min(trefi * intervals, 40000 if tier == "quick" else 80000)
    ports = []
    kind = rng.choice(["saturate", "saturate", "hammer", "allwrite", "allread", "pingpong", "idle"])
    if rate:
        kind = rng.choice(["idle", "idle", "pingpong"])
    for i in range(len(core["ports"])):
        if kind == "idle":
            ops = coregen.gen_port_ops(rng, amap, info, 3, hot, id0=1 + 100000 * i, delays="gaps")
        else:
            n = max(10, cycles // rng.choice([3, 4, 8]))
            style = {"saturate": "rand", "hammer": "hammer", "allwrite": "samerow", "allread": "samerow", "pingpong": "pingpong"}[kind]
            wmix = {"allwrite": 1.0, "allread": 0.0}.get(kind)
            ops = coregen.gen_port_ops(rng, amap, info, n, hot, style=style, wmix=wmix, delays="zero", id0=1 + 100000 * i)
        ports.append({"ops": ops})
    return {"core": core, "ports": ports, "limits": {"max_cycles": cycles, "tail": 10 ** 9, "min_cycles": cycles, "hang_ok": True}}


def run(scn):
    return run_core(scn, WANT)
