"""C10 — Wishbone port: one acknowledge per access and memory semantics.

Real code: litedram.frontend.wishbone.LiteDRAMWishbone2Native (equal-width path, down-converter path, narrow-bus path with
write-merge buffer and one-word read cache) and LiteDRAMNative2Wishbone; between a Wishbone master agent (classic and
incrementing-burst cycles, aborts) and the NativeMemSlave stub / a Wishbone memory slave stub.
"""
from migen import *

from litex.soc.interconnect import wishbone as wb

from litedram.common import LiteDRAMNativePort
from litedram.frontend.wishbone import LiteDRAMWishbone2Native, LiteDRAMNative2Wishbone

from ..engine import Sim
from ..agents import stuck, NativeMemSlave, NativeMaster, Violations, word_of, init_byte, RefMem
from .c07 import gen_pattern, gen_extra

ID = "C10"
LEVEL = "exploration"
TIERS = {"quick": {"runs": 1200}, "thorough": {"runs": 30000}}
RULE = ("one case = one seeded scenario (bus:port width ratio 1/8..8, base address, access list with addresses/sel/we/CTI, idle gaps with cyc "
        "held or dropped, aborts N cycles after the request, memory-side latencies and stalls); non-trivial = >= 2 accesses acknowledged; "
        "distinct = distinct event-log digest")
ASSUMPTIONS = [
    "Wishbone master: cyc&stb, adr, we, sel, dat_w, cti held stable until ack unless the access is aborted (cyc and stb dropped together); "
    "after an abort the bus shows the next access or idles with the last values",
    "an aborted write may or may not take effect: each of its selected bytes is old or new; nothing else may change; an aborted read changes nothing",
    "memory side = NativeMemSlave (real crossbar's contract)",
]
REAL = ["litedram.frontend.wishbone.LiteDRAMWishbone2Native (3 paths), LiteDRAMNative2Wishbone", "litedram.frontend.adapter down-converter (wide path)"]
STUB = ["Wishbone master agent", "NativeMemSlave", "Wishbone memory slave stub (reverse bridge)"]
SHRINK = {"lists": ["ops", "extra", "cmd_ready"], "zero": ["gap", "hold", "delay"]}
LEVEL_TEXT = ("Seeded exploration of the real Wishbone bridges with aborts landing in every FSM state and adversarial memory timing; oracle = "
              "one-ack rule, reference memory with set-valued bytes for aborted writes, final image. Sampling, not proof.")
LEVEL_NOTE = "Trusted: compiled evaluator, NativeMemSlave contract, Wishbone master agent's legality, set-valued abort model."


class WBMaster:
    """ops: {we, adr, sel, id, cti, gap (idle cycles before), hold (keep cyc during the gap), abort (cycles after request or None)}"""

    def __init__(self, sim, bus, ops, nbytes, on_done, viol):
        ix = sim.index
        self.i = {k: ix(getattr(bus, k)) for k in ("cyc", "stb", "we", "adr", "sel", "dat_w", "dat_r", "ack", "cti")}
        self.ops = ops
        self.k = 0
        self.nbytes = nbytes
        self.on_done = on_done
        self.viol = viol
        self.active = False
        self.wait = ops[0].get("gap", 0) if ops else 0
        self.age = 0
        self.nack = self.nabort = self.nabort_late = 0
        self.sim = sim

    def done(self):
        return self.k >= len(self.ops) and not self.active

    def __call__(self, sim):
        S, I = sim.S, self.i
        ack = S[I["ack"]]
        if ack and not self.active:
            self.viol.add("ack_outside_cycle", "ack asserted while the master had no access in progress (cyc&stb low)")
        if self.active:
            op = self.ops[self.k]
            if ack:
                self.nack += 1
                self.on_done(op, "ack", S[I["dat_r"]])
                self._finish(sim, op)
            else:
                self.age += 1
                ab = op.get("abort")
                if ab is not None and self.age > ab:
                    self.nabort += 1
                    self.on_done(op, "abort", None)
                    self._finish(sim, op, aborted=True)
        if not self.active and self.k < len(self.ops):
            op = self.ops[self.k]
            if self.wait > 0:
                self.wait -= 1
            else:
                self.active = True
                self.age = 0
                p = sim.poke
                p(I["cyc"], 1)
                p(I["stb"], 1)
                p(I["we"], op["we"])
                p(I["adr"], op["adr"])
                p(I["sel"], op.get("sel", (1 << self.nbytes) - 1))
                p(I["cti"], op.get("cti", 0))
                p(I["dat_w"], word_of(op["id"], self.nbytes) if op["we"] else 0)

    def _finish(self, sim, op, aborted=False):
        self.active = False
        self.k += 1
        I = self.i
        sim.poke(I["stb"], 0)
        nxt = self.ops[self.k] if self.k < len(self.ops) else None
        keep = (not aborted) and nxt is not None and nxt.get("hold", 0)
        if not keep:
            sim.poke(I["cyc"], 0)
        self.wait = nxt.get("gap", 0) if nxt else 0
        if aborted:
            # an abort is visible to the slave: cyc and stb are low for at least one full cycle
            self.wait = max(1, self.wait)


class WBSlaveMem:
    """Wishbone memory slave with ack latency list (for the reverse bridge)."""

    def __init__(self, sim, bus, nbytes, lat, off=0):
        self.off = off
        ix = sim.index
        self.i = {k: ix(getattr(bus, k)) for k in ("cyc", "stb", "we", "adr", "sel", "dat_w", "dat_r", "ack")}
        self.mem = {}
        self.nbytes = nbytes
        self.lat = lat or [0]
        self.n = 0
        self.cnt = None
        self.acking = False

    def word(self, a):
        v = self.mem.get(a)
        if v is None:
            v = 0
            for b in range(self.nbytes):
                v |= init_byte(((a - self.off) & 0xFFFFFFFF) * self.nbytes + b) << (8 * b)
        return v

    def __call__(self, sim):
        S, I = sim.S, self.i
        req = S[I["cyc"]] and S[I["stb"]]
        if self.acking:
            # ack was high during the last cycle: access done
            self.acking = False
            sim.poke(I["ack"], 0)
            self.cnt = None
            return
        if req:
            if self.cnt is None:
                self.cnt = self.lat[self.n % len(self.lat)]
                self.n += 1
            if self.cnt > 0:
                self.cnt -= 1
            else:
                a = S[I["adr"]]
                if S[I["we"]]:
                    old = self.word(a)
                    d, sel = S[I["dat_w"]], S[I["sel"]]
                    for b in range(self.nbytes):
                        if (sel >> b) & 1:
                            old = (old & ~(0xFF << (8 * b))) | (d & (0xFF << (8 * b)))
                    self.mem[a] = old
                else:
                    sim.poke(I["dat_r"], self.word(a))
                sim.poke(I["ack"], 1)
                self.acking = True
        else:
            self.cnt = None


def run_n2w(scn):
    d = scn["dut"]
    dw = d["dw"]
    nb = dw // 8
    port = LiteDRAMNativePort("both", 24, dw)
    bus = wb.Interface(data_width=dw, adr_width=32, addressing="word")
    base = d.get("base", 0)
    dut = LiteDRAMNative2Wishbone(port, bus, base_address=base)
    sim = Sim(dut, {"sys": 10000})
    viol = Violations(sim)
    ref = RefMem()
    expect = []
    got = [0]

    def on_cmd(op):
        if op["we"]:
            ref.write(op["addr"], nb, word_of(op["id"], nb), op.get("sel", (1 << nb) - 1))
        else:
            expect.append((op["id"], op["addr"], ref.read(op["addr"], nb)))

    def on_rdata(data):
        k = got[0]
        got[0] += 1
        if k >= len(expect):
            viol.add("spurious_rdata", "read data with no read outstanding")
        elif data != expect[k][2]:
            viol.add("read_data", "native read #%d (addr 0x%x) returned 0x%x, expected 0x%x" % (k, expect[k][1], data, expect[k][2]))
    ops = scn["master"]["ops"]
    mas = NativeMaster(sim, port, ops, on_cmd=on_cmd, on_rdata=on_rdata)
    sl = WBSlaveMem(sim, bus, nb, scn.get("lat"), off=base // nb)
    sim.add_agent("sys", mas)
    sim.add_agent("sys", sl)
    cap = 300 + sum(o.get("delay", 0) for o in ops) + len(ops) * (max(scn.get("lat") or [0]) + 8)
    cyc = 0
    quiet = 0
    while cyc < cap:
        sim.step()
        cyc += 1
        if not cyc & 63 and stuck(sim, cyc):
            break       # no handshake anywhere for 60000 cycles: the run is stuck, do not spin to the cap
        if mas.idle():
            quiet += 1
            if quiet > 20:
                break
        else:
            quiet = 0
    off = base // nb
    if not mas.idle():
        viol.add("hang", "reverse bridge not drained after %d cycles (cmds %d/%d)" % (cyc, mas.ncmd, len(ops)))
    else:
        for a in sorted(sl.mem):
            if sl.mem[a] != ref.read(a - off, nb):
                viol.add("final_image", "wishbone slave word 0x%x holds 0x%x, reference says 0x%x" % (a, sl.mem[a], ref.read(a - off, nb)))
                break
        for ba in sorted(ref.m):
            if (ba // nb) + off not in sl.mem:
                viol.add("final_image", "native word 0x%x written but never reached the wishbone slave at 0x%x" % (ba // nb, ba // nb + off))
                break
    return {"violations": viol.v, "stats": {"n2w_cmds": mas.ncmd}, "cycles": cyc, "sim_ps": sim.now, "digest": sim.digest(),
            "nontrivial": mas.ncmd >= 2, "states": ["n2w"], "summary": {"variant": "n2w", "ops": len(ops)}}


def run(scn):
    if scn.get("variant") == "n2w":
        return run_n2w(scn)
    d = scn["dut"]
    wdw, pdw = d["wb_dw"], d["port_dw"]
    wnb, pnb = wdw // 8, pdw // 8
    base = d.get("base", 0)
    paw = d.get("paw", 16)
    bus = wb.Interface(data_width=wdw, adr_width=30, addressing="word")
    m = scn["mem"]
    core = scn.get("core")
    if core:
        from ..corebench import core_host, CorePortView

        def attach(top, ports):
            top.submodules.frontend = LiteDRAMWishbone2Native(bus, ports[0], base_address=base)
        tb, sim, viol, dram = core_host(core, Violations, attach)
        port = tb.ports[0]
        assert port.data_width == pdw and tb.amap.aw == paw
        mem = CorePortView(sim, tb, dram, port)
    else:
        port = LiteDRAMNativePort("both", paw, pdw)
        dut = LiteDRAMWishbone2Native(bus, port, base_address=base)
        sim = Sim(dut, {"sys": 10000})
        viol = Violations(sim)
        mem = NativeMemSlave(sim, port, cmd_ready=m.get("cmd_ready"), max_out=m.get("max_out", 8), wl1=m.get("wl1", 1),
                             rl1=m.get("rl1", 3), extra=m.get("extra"), viol=None)
    # reference: byte address -> set of admissible values
    refset = {}
    woff = base // wnb
    stats = {"acks": 0, "aborts": 0, "aborted_writes": 0, "aborted_reads": 0, "reads": 0, "writes": 0, "burst_accesses": 0,
             "partial_sel": 0, "read_after_write_same_word": 0}
    lastw = [None]

    def allowed(ba):
        s = refset.get(ba)
        return s if s is not None else {init_byte(ba)}

    def on_done(op, how, dat_r):
        a = (op["adr"] - woff) & ((1 << 30) - 1)
        sel = op.get("sel", (1 << wnb) - 1)
        sim.ev("wb", op["id"], how, op["we"], a)
        if op.get("cti", 0) == 2:
            stats["burst_accesses"] += 1
        if how == "ack":
            stats["acks"] += 1
            if op["we"]:
                stats["writes"] += 1
                if sel != (1 << wnb) - 1:
                    stats["partial_sel"] += 1
                d_ = word_of(op["id"], wnb)
                for b in range(wnb):
                    if (sel >> b) & 1:
                        refset[a * wnb + b] = {(d_ >> (8 * b)) & 0xFF}
                lastw[0] = a * wnb // pnb
            else:
                stats["reads"] += 1
                if lastw[0] == a * wnb // pnb:
                    stats["read_after_write_same_word"] += 1
                for b in range(wnb):
                    v = (dat_r >> (8 * b)) & 0xFF
                    if v not in allowed(a * wnb + b):
                        viol.add("read_data", "read of wishbone word 0x%x (op %d) returned 0x%x: byte %d is 0x%02x, admissible %s"
                                 % (a, op["id"], dat_r, b, v, sorted("0x%02x" % x for x in allowed(a * wnb + b))))
                        break
        else:
            stats["aborts"] += 1
            if op["we"]:
                stats["aborted_writes"] += 1
                d_ = word_of(op["id"], wnb)
                for b in range(wnb):
                    if (sel >> b) & 1:
                        refset[a * wnb + b] = set(allowed(a * wnb + b)) | {(d_ >> (8 * b)) & 0xFF}
            else:
                stats["aborted_reads"] += 1

    ops = scn["ops"]
    from ..agents import StateSampler
    fe = tb.dut.frontend if core else dut
    samp = StateSampler(sim, [fe.fsm.state, bus.cyc, bus.stb, bus.we, port.cmd.valid, port.cmd.ready, port.wdata.ready, port.rdata.valid])
    mas = WBMaster(sim, bus, ops, wnb, on_done, viol)
    sim.add_agent("sys", mas)
    if not core:
        sim.add_agent("sys", mem)
    stall = sum(b for a, b in (m.get("cmd_ready") or [])) + 1
    ratio = max(1, wdw // pdw)
    # every native access of a down-converted bus access pays the memory's grant delay and latency (serialised by the converter);
    # stuck runs are ended by the progress watchdog, so the cap only has to be large enough
    cap = 500 + sum(o.get("gap", 0) for o in ops) + len(ops) * (ratio * (stall + 8 + max(m.get("extra") or [0]) + m.get("rl1", 3) + m.get("wl1", 1)) + 12)
    need_quiet = 60 + max([b for a, b in (m.get("cmd_ready") or [])] or [0]) + max(m.get("extra") or [0]) + m.get("rl1", 3) + 8 * ratio
    if core:
        cap = 2 * cap + 3000 + 100 * ratio * len(ops)
        need_quiet += 250
    cyc = 0
    quiet = 0
    while cyc < cap:
        sim.step()
        cyc += 1
        if not cyc & 63 and stuck(sim, cyc):
            break       # no handshake anywhere for 60000 cycles: the run is stuck, do not spin to the cap
        if mas.done() and mem.idle():
            quiet += 1
            if quiet > need_quiet:
                break
        else:
            quiet = 0
    if not (mas.done() and mem.idle()):
        viol.add("hang", "not completed after %d cycles: access %d/%d in progress=%s, acks %d, aborts %d, memory idle=%s"
                 % (cyc, mas.k, len(ops), mas.active, mas.nack, mas.nabort, mem.idle()))
    else:
        nbad = 0
        for A in sorted(mem.mem):
            w = mem.mem[A]
            for b in range(pnb):
                v = (w >> (8 * b)) & 0xFF
                if v not in allowed(A * pnb + b):
                    nbad += 1
                    if nbad <= 2:
                        viol.add("final_image", "memory byte 0x%x (word 0x%x byte %d) holds 0x%02x, admissible %s"
                                 % (A * pnb + b, A, b, v, sorted("0x%02x" % x for x in allowed(A * pnb + b))))
        for ba in sorted(refset):
            if ba // pnb not in mem.mem and init_byte(ba) not in refset[ba]:
                viol.add("final_image", "byte 0x%x written over wishbone never reached memory" % ba)
                break
    stats["core_variant_runs"] = 1 if core else 0
    return {"violations": viol.v, "stats": stats, "cycles": cyc, "sim_ps": sim.now, "digest": sim.digest(),
            "nontrivial": stats["acks"] >= 2,
            "states": samp.states("wb%d:%d " % (wdw, pdw)),
            "summary": {"wb_dw": wdw, "port_dw": pdw, "ops": len(ops), "acks": stats["acks"], "aborts": stats["aborts"]}}


def gen(rng, tier, index):
    if rng.random() < 0.08:
        dw = rng.choice([8, 32, 64])
        n = rng.choice([2, 6, 20, 50])
        addrs = [rng.getrandbits(12) for _ in range(rng.choice([1, 3, 8]))]
        ops = []
        for i in range(n):
            op = {"id": i + 1, "we": rng.random() < 0.5, "addr": rng.choice(addrs), "delay": rng.choice([0, 0, 1, 5])}
            op["we"] = 1 if op["we"] else 0
            if op["we"] and rng.random() < 0.3:
                op["sel"] = rng.getrandbits(dw // 8)
            ops.append(op)
        return {"variant": "n2w", "dut": {"dw": dw, "base": rng.choice([0, 0x1000, 0x40000000])}, "master": {"ops": ops},
                "lat": [rng.choice([0, 0, 1, 3, 10]) for _ in range(rng.randint(1, 6))]}
    k = rng.choice([-3, -2, -1, -1, 0, 0, 1, 1, 2, 3])       # log2(wb/port)
    core = None
    paw = 20
    if rng.random() < 0.12:
        from .. import coregen
        core, info = coregen.gen_core(rng, nports=1, nranks=1)
        pdw = info["data_bytes"] * 8
        paw = coregen.amap_of(core, info).aw
        k = rng.choice([kk for kk in (-3, -2, -1, 0, 1, 2) if 8 <= (pdw << kk if kk >= 0 else pdw >> -kk) <= 512])
        wdw = pdw << k if k >= 0 else pdw >> -k
    elif k >= 0:
        pdw = rng.choice([w for w in (8, 16, 32, 64) if w << k <= 512])
        wdw = pdw << k
    else:
        wdw = rng.choice([w for w in (8, 16, 32, 64) if w << (-k) <= 512])
        pdw = wdw << (-k)
    wnb = wdw // 8
    base = rng.choice([0, 0, 0x1000, 0x40000000, 0x80000000])
    if base // wnb >= (1 << 29):
        base = 0x1000      # keep the base inside the lower half of the 30-bit bus address space
    d = {"wb_dw": wdw, "port_dw": pdw, "base": base, "paw": paw}
    woff = base // wnb
    n = rng.choice([1, 2, 4, 8, 20, 50]) if tier == "quick" else rng.choice([2, 5, 15, 40, 100])
    ratio = max(1, pdw // wdw)
    # "wide" = index of a native-port-sized word (narrow path) / of a bus word (other paths); include the top of the range
    top = (1 << d["paw"]) if wdw <= pdw else (1 << d["paw"]) // (wdw // pdw)
    # the bus address is 30 bits wide: the mapped window ends where base + offset leaves the bus address space (an address that
    # wraps to below the base is outside the window and nobody relies on what it does)
    top = min(top, ((1 << 30) - woff) // ratio)
    pool = [rng.getrandbits(10) for _ in range(4)] + [top - 1, top - 2, top // 2, top // 2 + 1, top // 4 * 3]
    wide = rng.sample(pool, rng.choice([1, 1, 2, 4]))
    abort_p = rng.choice([0.0, 0.0, 0.1, 0.3])
    wmix = rng.choice([0.0, 0.3, 0.5, 0.7, 1.0])
    gapm = rng.choice(["zero", "zero", "small", "big"])
    burst_p = rng.choice([0.0, 0.3, 0.8])
    ops = []
    i = 0
    while i < n:
        we = 1 if rng.random() < wmix else 0
        w = rng.choice(wide)
        if rng.random() < burst_p:
            # incrementing burst: consecutive addresses, CTI=2 ... last beat CTI=7, cyc held
            ln = rng.randint(2, max(2, min(2 * ratio + 2, 12)))
            start = min(w * ratio + rng.randrange(ratio), top * ratio - ln)
            for j in range(ln):
                op = {"id": i + 1, "we": we, "adr": (start + j + woff) & ((1 << 30) - 1), "cti": 7 if j == ln - 1 else 2,
                      "hold": 1 if j else rng.choice([0, 1]), "gap": 0 if j else _gap(rng, gapm)}
                if we and rng.random() < 0.3:
                    op["sel"] = rng.getrandbits(wnb)
                if rng.random() < abort_p / 2:
                    op["abort"] = rng.randint(0, 12)
                ops.append(op)
                i += 1
        else:
            op = {"id": i + 1, "we": we, "adr": (w * ratio + rng.randrange(ratio) + woff) & ((1 << 30) - 1), "cti": rng.choice([0, 0, 7, 2]),
                  "hold": rng.choice([0, 0, 1]), "gap": _gap(rng, gapm)}
            if we and rng.random() < 0.4:
                op["sel"] = rng.getrandbits(wnb)
            if rng.random() < abort_p:
                op["abort"] = rng.randint(0, 12)
            ops.append(op)
            i += 1
    wl1 = rng.randint(1, 6)
    mem = {"cmd_ready": gen_pattern(rng), "max_out": rng.randint(3, 20), "wl1": wl1, "rl1": rng.randint(wl1 + 1, 14), "extra": gen_extra(rng)}
    scn = {"dut": d, "mem": mem, "ops": ops}
    if core:
        scn["core"] = core
        scn["ops"] = ops[:40]
    return scn


def _gap(rng, gapm):
    if gapm == "zero":
        return 0
    if gapm == "small":
        return rng.choice([0, 0, 1, 2, 3])
    return rng.choice([0, 0, 0, rng.randint(5, 60)])
