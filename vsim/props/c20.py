"""C20 — LPDDR4 (and LPDDR5) PHY translate each DFI command into the matching CA sequence.

Real code: litedram.phy.lpddr4.simphy.LPDDR4SimPHY (basephy, commands.DFIPhaseAdapter/Command, utils.CommandsPipeline/ConstBitSlip,
output serialisers) and DoubleRateLPDDR4SimPHY observed at the CS/CA *pads* (sys8x domain); litedram.phy.lpddr5.simphy.LPDDR5SimPHY
observed at the PHY's per-cycle CS/CA output words and at its CK/CS/CA pads.  An independent decoder (pad stream -> commands) reconstructs what a DRAM would see.
"""
import random

from migen import *

from litedram.phy.lpddr4.simphy import LPDDR4SimPHY, DoubleRateLPDDR4SimPHY
from litedram.phy.lpddr5.simphy import LPDDR5SimPHY

from ..engine import Sim
from ..agents import Violations

ID = "C20"
LEVEL = "exploration"
TIERS = {"quick": {"runs": 240}, "thorough": {"runs": 6000}}
RULE = ("one case = one seeded DFI command stream (every command type incl. MRS / ZQC-encoded MPC, MRR; walking-one and random bank/address values; "
        "all phase positions; cycle-to-cycle spacings from far apart to overlapping) into the LPDDR4 sim PHY (masked / unmasked write, basic / extended "
        "overlap check) or the LPDDR5 sim PHY; non-trivial = >= 2 commands decoded on the pads; distinct = distinct event-log digest")
ASSUMPTIONS = [
    "decoder transcribed from the JEDEC command truth tables (JESD209-4 / -5) as known to the author, written in the pad -> command direction",
    "DFI conventions of the project: MRS carries the mode-register address in bank and the operand in address; ZQC with bank = SpecialCmd selects MPC/MRR(/NOP); "
    "LPDDR5 column bits are address[i+4]; A10 is AP / all-banks",
    "a command is expected at the slot of its DFI phase plus a fixed latency (calibrated on the first command of the run, then held constant)",
    "LPDDR4 (single- and double-rate sim PHY) observed at the CS/CA pads (sys, sys2x, sys8x clocks phase aligned); LPDDR5 observed twice: at the PHY's "
    "per-cycle CS/CA words before serialisation and at the CK/CS/CA pads (sys, sys2x, sys4x), CS and CA sampled at the rising CK edge and CA again at the "
    "falling edge, as the device does",
]
REAL = ["litedram.phy.lpddr4.simphy.LPDDR4SimPHY (LPDDR4PHY base, DFIPhaseAdapter/Command, CommandsPipeline, ConstBitSlip, Serializer)",
        "litedram.phy.lpddr5.simphy.LPDDR5SimPHY (LPDDR5PHY base, DFIPhaseAdapter/Command, command buffer)"]
STUB = ["DFI command stream driver", "independent CS/CA decoder", "clock generator"]
SHRINK = {"lists": ["cmds"], "zero": []}
LEVEL_TEXT = ("Seeded exploration of the real LPDDR4/5 PHY command paths, judged by an independent pad-level decoder: operation, bank, row/column, AP/AB, "
              "MR address/operand, slot position; suppression only for overlaps. Sampling, not proof.")
LEVEL_NOTE = "Trusted: compiled evaluator and kernel, the decoder tables of this module (transcribed, not verified against the standard text offline)."

KIND = {"ACT": (0, 1, 0), "RD": (1, 0, 0), "WR": (1, 0, 1), "PRE": (0, 1, 1), "REF": (1, 1, 0), "ZQC": (0, 0, 1), "MRS": (1, 1, 1)}   # cas, ras, we


def bits(v, idx):
    return [(v >> i) & 1 for i in idx]


# ---- LPDDR4 -------------------------------------------------------------------------------------------

def l4_decode(slots):
    """slots: list of (cs, ca) per SDR cycle -> list of (slot, kind, fields). Independent JEDEC-style decoding."""
    small = []
    n = 0
    N = len(slots)
    while n < N - 1:
        cs, ca1 = slots[n]
        if not cs:
            n += 1
            continue
        cs2, ca2 = slots[n + 1]
        b = [(ca1 >> i) & 1 for i in range(6)]
        c = [(ca2 >> i) & 1 for i in range(6)]
        if b[0] == 1:
            if b[1] == 0:
                small.append((n, "ACT-1", {"r12_15": b[2:6], "ba": c[0:3], "r16": c[3], "r10": c[4], "r11": c[5]}))
            else:
                small.append((n, "ACT-2", {"r6_9": b[2:6], "r0_5": c}))
        else:
            code = (b[1], b[2], b[3], b[4])
            name = {(1, 1, 0, 0): "MRW-1", (1, 1, 0, 1): "MRW-2", (1, 1, 1, 0): "MRR-1", (0, 0, 1, 0): "REF", (0, 1, 0, 0): "WR-1",
                    (0, 1, 1, 0): "MWR-1", (1, 0, 0, 0): "RD-1", (1, 0, 0, 1): "CAS-2", (0, 0, 0, 1): "PRE", (0, 0, 0, 0): "MPC"}.get(code, "?%s" % (code,))
            small.append((n, name, {"b5": b[5], "c": c, "cs2": cs2}))
        n += 2 if not cs2 else 1
    out = []
    i = 0
    while i < len(small):
        n, name, f = small[i]
        nxt = small[i + 1] if i + 1 < len(small) else None
        two = nxt is not None and nxt[0] == n + 2
        if name == "ACT-1" and two and nxt[1] == "ACT-2":
            g = nxt[2]
            row = 0
            for k, v in enumerate(g["r0_5"]):
                row |= v << k
            for k, v in enumerate(g["r6_9"]):
                row |= v << (6 + k)
            row |= f["r10"] << 10 | f["r11"] << 11
            for k, v in enumerate(f["r12_15"]):
                row |= v << (12 + k)
            row |= f["r16"] << 16
            out.append((n, "ACT", {"bank": f["ba"][0] | f["ba"][1] << 1 | f["ba"][2] << 2, "row": row}))
            i += 2
        elif name in ("WR-1", "MWR-1", "RD-1") and two and nxt[1] == "CAS-2":
            c = f["c"]
            g = nxt[2]
            col = g["b5"] << 8 | c[4] << 9
            for k, v in enumerate(g["c"]):
                col |= v << (2 + k)
            out.append((n, {"WR-1": "WR", "MWR-1": "MWR", "RD-1": "RD"}[name],
                        {"bank": c[0] | c[1] << 1 | c[2] << 2, "col": col, "ap": c[5], "bl": f["b5"]}))
            i += 2
        elif name == "MRR-1" and two and nxt[1] == "CAS-2":
            ma = 0
            for k, v in enumerate(f["c"]):
                ma |= v << k
            out.append((n, "MRR", {"ma": ma}))
            i += 2
        elif name == "MRW-1" and two and nxt[1] == "MRW-2":
            ma = op = 0
            for k, v in enumerate(f["c"]):
                ma |= v << k
            for k, v in enumerate(nxt[2]["c"]):
                op |= v << k
            op |= nxt[2]["b5"] << 6 | f["b5"] << 7
            out.append((n, "MRW", {"ma": ma, "op": op}))
            i += 2
        elif name in ("PRE", "REF"):
            c = f["c"]
            out.append((n - 2, name, {"bank": c[0] | c[1] << 1 | c[2] << 2, "ab": f["b5"]}))
            i += 1
        elif name == "MPC":
            op = f["b5"] << 6
            for k, v in enumerate(f["c"]):
                op |= v << k
            out.append((n - 2, "MPC", {"op": op}))
            i += 1
        else:
            out.append((n, "BAD:" + name, {}))
            i += 1
    return out


def l4_expected(cmd, masked):
    """(kind, fields) a DRAM must decode for a DFI command, None when it is not a command for the PHY."""
    k, bank, addr = cmd["k"], cmd["bank"], cmd["addr"]
    if k == "ACT":
        return "ACT", {"bank": bank & 7, "row": addr & 0x1FFFF}
    if k in ("RD", "WR"):
        f = {"bank": bank & 7, "col": addr & 0x3FC, "ap": (addr >> 10) & 1, "bl": 0}
        return ("RD" if k == "RD" else ("MWR" if masked else "WR")), f
    if k in ("PRE", "REF"):
        return k, {"bank": bank & 7, "ab": (addr >> 10) & 1}
    if k == "MRS":
        return "MRW", {"ma": bank & 0x3F, "op": addr & 0xFF}
    if k == "ZQC":
        if bank == 0:
            return "MPC", {"op": addr & 0x7F}
        if bank == 1:
            return "MRR", {"ma": addr & 0x3F}
        return None
    return None


def run_l4(scn):
    d = scn["dut"]
    masked, ext = d["masked_write"], d["extended"]
    P = 8000
    clocks = {"sys": {"period": P, "phase": 0}, "sys8x": {"period": P // 8, "phase": 0}}
    if d.get("double_rate"):
        # 16:8 serialisation sys -> sys2x inside the PHY, 4:1 sys2x -> sys8x in the simulation wrapper; serialiser counters start
        # aligned with the divided clock (serdes_reset_cnt=-1, as the project's own double-rate bench does: no reset sequence here)
        phy = DoubleRateLPDDR4SimPHY(sys_clk_freq=50e6, masked_write=masked, extended_overlaps_check=ext, serdes_reset_cnt=-1)
        clocks["sys2x"] = {"period": P // 2, "phase": 0}
    else:
        phy = LPDDR4SimPHY(sys_clk_freq=50e6, masked_write=masked, extended_overlaps_check=ext)
    sim = Sim(phy, clocks)
    viol = Violations(sim)
    ix = sim.index
    S = sim.S
    phs = [{k: ix(getattr(p, k)) for k in ("cs_n", "ras_n", "cas_n", "we_n", "bank", "address")} for p in phy.dfi.phases]
    i_cs = ix(phy.pads.cs)
    i_ca = ix(phy.pads.ca)
    cmds = scn["cmds"]
    by_cycle = {}
    for c in cmds:
        by_cycle.setdefault(c["cyc"], []).append(c)
    ncyc = (max(by_cycle) if by_cycle else 0) + 6
    slots = []

    def drv(sim):
        t = sim.cycles["sys"] + 1
        for ph in phs:
            sim.poke(ph["cs_n"], 1); sim.poke(ph["ras_n"], 1); sim.poke(ph["cas_n"], 1); sim.poke(ph["we_n"], 1)
        for c in by_cycle.get(t, []):
            ph = phs[c["ph"]]
            cas, ras, we = KIND[c["k"]]
            sim.poke(ph["cs_n"], c.get("cs_n", 0)); sim.poke(ph["cas_n"], 1 - cas); sim.poke(ph["ras_n"], 1 - ras); sim.poke(ph["we_n"], 1 - we)
            sim.poke(ph["bank"], c["bank"]); sim.poke(ph["address"], c["addr"])

    def mon(sim):
        slots.append((S[i_cs], S[i_ca]))
    sim.add_agent("sys", drv)
    sim.add_agent("sys8x", mon)
    sim.run(ncyc, "sys")
    got = l4_decode(slots)
    for g_ in got:
        sim.ev("pad", g_[0], g_[1], tuple(sorted(g_[2].items())))
    # expected under the literal rule (blocked by an *emitted* command that started < 4 slots earlier) and under the
    # presented-based rule of the basic overlap check
    pres = []
    for c in sorted(cmds, key=lambda c: (c["cyc"], c["ph"])):
        if c.get("cs_n", 0):
            continue
        e = l4_expected(c, masked)
        if e is not None:
            pres.append((8 * c["cyc"] + c["ph"], e, c))
    lit, basic = [], []
    last_emit = -100
    for k, (t, e, c) in enumerate(pres):
        if t - last_emit >= 4:
            lit.append((t, e))
            last_emit = t
    for k, (t, e, c) in enumerate(pres):
        if not any(0 < t - t2 < 4 for (t2, _, _) in pres[:k]):
            basic.append((t, e))
    stats = {"commands": len(pres), "emitted": len(lit), "suppressed_overlaps": len(pres) - len(lit), "shadow_cases": len(lit) - len(basic),
             "decoded": len(got), "two_part": sum(1 for t, e in lit if e[0] in ("ACT", "RD", "WR", "MWR", "MRW", "MRR"))}
    for k in KIND:
        stats["k_" + k] = sum(1 for c in cmds if c["k"] == k)

    def compare(exp):
        if not exp and not got:
            return None
        if not exp or not got:
            return "PHY emitted %d command(s), %d expected" % (len(got), len(exp))
        L = got[0][0] - exp[0][0]
        for j in range(max(len(exp), len(got))):
            if j >= len(exp):
                return "extra command on the pads at slot %d: %s %s" % (got[j][0], got[j][1], got[j][2])
            if j >= len(got):
                return "command missing on the pads: %s %s presented for slot %d" % (exp[j][1][0], exp[j][1][1], exp[j][0])
            if (got[j][0] - L, got[j][1], got[j][2]) != (exp[j][0], exp[j][1][0], exp[j][1][1]):
                return ("command #%d: pads carry %s %s at slot %d, DFI asked for %s %s at slot %d (+%d)"
                        % (j, got[j][1], got[j][2], got[j][0], exp[j][1][0], exp[j][1][1], exp[j][0], L))
        return None
    r = compare(lit)
    if r is not None:
        rb = compare(basic) if not ext else "n/a"
        if rb is None:
            viol.add("shadow_suppression", "a command not overlapping any emitted command was suppressed because it follows a suppressed one (%s)" % r)
        else:
            viol.add("ca_sequence", r)
    return {"violations": viol.v, "stats": stats, "cycles": ncyc * 9, "sim_ps": sim.now, "digest": sim.digest(),
            "nontrivial": len(got) >= 2, "states": ["l4 m%d e%d d%d" % (int(masked), int(ext), int(bool(d.get("double_rate"))))],
            "summary": {"variant": "lpddr4", "dut": d, "cmds": len(cmds), "decoded": len(got)}}


# ---- LPDDR5 -------------------------------------------------------------------------------------------

def l5_small(cs, cap, can):
    if not cs:
        return None
    b = [(cap >> i) & 1 for i in range(7)]
    c = [(can >> i) & 1 for i in range(7)]

    def val(bits_):
        v = 0
        for k, x in enumerate(bits_):
            v |= x << k
        return v
    if b[0:3] == [1, 1, 1]:
        return "ACT-1", {"r14_17": b[3:7], "ba": val(c[0:4]), "r11_13": c[4:7]}
    if b[0:3] == [1, 1, 0]:
        return "ACT-2", {"r7_10": b[3:7], "r0_6": c}
    if b[0:3] == [1, 0, 0]:
        return "RD16", {"c0": b[3], "c3_5": b[4:7], "ba": val(c[0:4]), "c1_2": c[4:6], "ap": c[6]}
    if b[0:3] == [0, 1, 0]:
        return "MWR", {"c0": b[3], "c3_5": b[4:7], "ba": val(c[0:4]), "c1_2": c[4:6], "ap": c[6]}
    if b[0:3] == [0, 1, 1]:
        return "WR16", {"c0": b[3], "c3_5": b[4:7], "ba": val(c[0:4]), "c1_2": c[4:6], "ap": c[6]}
    if b[0:4] == [0, 0, 1, 1]:
        return "CAS", {}
    if b[0:3] == [0, 0, 0]:
        rest = tuple(b[3:7])
        if rest == (1, 1, 1, 1):
            return "PRE", {"ba": val(c[0:4]), "ab": c[6]}
        if rest == (1, 1, 1, 0):
            return "REF", {"ba": val(c[0:3]), "ab": c[6]}
        if b[3:6] == [0, 1, 1]:
            return "MPC", {"op": val(c) | b[6] << 7}
        if rest == (1, 1, 0, 1):
            return "MRW-1", {"ma": val(c)}
        if b[3:6] == [1, 0, 0]:
            return "MRW-2", {"op": val(c) | b[6] << 7}
        if rest == (1, 1, 0, 0):
            return "MRR", {"ma": val(c)}
        if rest == (0, 0, 0, 0):
            return "NOP", {}
    return "?", {"ca": (cap, can)}


def l5_decode(cycles):
    out = []
    sm = [l5_small(*x) for x in cycles]
    i = 0
    while i < len(sm):
        s = sm[i]
        if s is None:
            i += 1
            continue
        name, f = s
        nxt = sm[i + 1] if i + 1 < len(sm) else None
        if name == "ACT-1" and nxt and nxt[0] == "ACT-2":
            g = nxt[1]
            row = 0
            for k, v in enumerate(g["r0_6"]):
                row |= v << k
            for k, v in enumerate(g["r7_10"]):
                row |= v << (7 + k)
            for k, v in enumerate(f["r11_13"]):
                row |= v << (11 + k)
            for k, v in enumerate(f["r14_17"]):
                row |= v << (14 + k)
            out.append((i, "ACT", {"bank": f["ba"], "row": row}))
            i += 2
        elif name == "CAS" and nxt and nxt[0] in ("RD16", "WR16", "MWR"):
            g = nxt[1]
            col = g["c0"] | g["c1_2"][0] << 1 | g["c1_2"][1] << 2 | g["c3_5"][0] << 3 | g["c3_5"][1] << 4 | g["c3_5"][2] << 5
            out.append((i, {"RD16": "RD", "WR16": "WR", "MWR": "MWR"}[nxt[0]], {"bank": g["ba"], "col": col, "ap": g["ap"]}))
            i += 2
        elif name == "CAS" and nxt and nxt[0] == "MRR":
            out.append((i, "MRR", {"ma": nxt[1]["ma"]}))
            i += 2
        elif name == "MRW-1" and nxt and nxt[0] == "MRW-2":
            out.append((i, "MRW", {"ma": f["ma"], "op": nxt[1]["op"]}))
            i += 2
        elif name in ("PRE", "REF", "MPC", "NOP"):
            out.append((i - 1, name, f))
            i += 1
        else:
            out.append((i, "BAD:" + name, f))
            i += 1
    return out


def l5_expected(cmd, masked):
    k, bank, addr = cmd["k"], cmd["bank"], cmd["addr"]
    if k == "ACT":
        return "ACT", {"bank": bank & 15, "row": addr & 0x3FFFF}
    if k in ("RD", "WR"):
        return ("RD" if k == "RD" else ("MWR" if masked else "WR")), {"bank": bank & 15, "col": (addr >> 4) & 0x3F, "ap": (addr >> 10) & 1}
    if k == "PRE":
        return "PRE", {"ba": bank & 15, "ab": (addr >> 10) & 1}
    if k == "REF":
        return "REF", {"ba": bank & 7, "ab": (addr >> 10) & 1}
    if k == "MRS":
        return "MRW", {"ma": bank & 0x7F, "op": addr & 0xFF}
    if k == "ZQC":
        if bank == 0:
            return "MPC", {"op": (addr & 0xFF) if (addr & 0x3FFFF) else 0b10000110}
        if bank == 1:
            return "MRR", {"ma": addr & 0x7F}
        if bank == 2:
            return "NOP", {}
    return None


def run_l5(scn):
    d = scn["dut"]
    masked = d["masked_write"]
    phy = LPDDR5SimPHY(sys_clk_freq=50e6, masked_write=masked)
    # sys2x serialises CK and CS, sys4x serialises CA (DDR, centre aligned with CK); the pads are sampled every quarter CK period
    sim = Sim(phy, {"sys": {"period": 8000, "phase": 0}, "sys2x": {"period": 4000, "phase": 0}, "sys4x": {"period": 2000, "phase": 0}})
    viol = Violations(sim)
    ix = sim.index
    S = sim.S
    p0 = phy.dfi.p0
    ph = {k: ix(getattr(p0, k)) for k in ("cs_n", "ras_n", "cas_n", "we_n", "bank", "address")}
    i_cs = ix(phy.out.cs)
    i_ca = [ix(x) for x in phy.out.ca]
    cmds = scn["cmds"]
    by_cycle = {c["cyc"]: c for c in cmds}
    ncyc = (max(by_cycle) if by_cycle else 0) + 8
    cycles = []

    def drv(sim):
        t = sim.cycles["sys"] + 1
        cycles.append((S[i_cs], sum((S[i_ca[b]] & 1) << b for b in range(7)), sum(((S[i_ca[b]] >> 1) & 1) << b for b in range(7))))
        sim.poke(ph["cs_n"], 1); sim.poke(ph["ras_n"], 1); sim.poke(ph["cas_n"], 1); sim.poke(ph["we_n"], 1)
        c = by_cycle.get(t)
        if c is not None:
            cas, ras, we = KIND[c["k"]]
            sim.poke(ph["cs_n"], c.get("cs_n", 0)); sim.poke(ph["cas_n"], 1 - cas); sim.poke(ph["ras_n"], 1 - ras); sim.poke(ph["we_n"], 1 - we)
            sim.poke(ph["bank"], c["bank"]); sim.poke(ph["address"], c["addr"])
    i_pck, i_pcs, i_pca = ix(phy.pads.ck), ix(phy.pads.cs), ix(phy.pads.ca)
    quarters = []

    def padmon(sim):
        quarters.append((S[i_pck], S[i_pcs], S[i_pca]))
    sim.add_agent("sys", drv)
    sim.add_agent("sys4x", padmon)
    sim.run(ncyc, "sys")
    got = l5_decode(cycles)
    for g_ in got:
        sim.ev("out", g_[0], g_[1], tuple(sorted((k_, str(v_)) for k_, v_ in g_[2].items())))
    # what a DRAM sees: CS and CA[6:0] sampled at the rising CK edge, CA again at the falling edge
    pad_cycles = []
    unstable = None
    cur = None
    for n in range(1, len(quarters)):
        ck0, ck1 = quarters[n - 1][0], quarters[n][0]
        if ck0 == 0 and ck1 == 1:
            if cur is not None:
                pad_cycles.append((cur[0], cur[1], cur[1]))     # no falling edge seen (cannot happen with a running clock)
            cur = [quarters[n][1], quarters[n][2]]
            if quarters[n][1] and quarters[n - 1][2] != quarters[n][2] and unstable is None:
                unstable = n
        elif ck0 == 1 and ck1 == 0 and cur is not None:
            pad_cycles.append((cur[0], cur[1], quarters[n][2]))
            if cur[0] and quarters[n - 1][2] != quarters[n][2] and unstable is None:
                unstable = n
            cur = None
    got_pads = l5_decode(pad_cycles)
    for g_ in got_pads:
        sim.ev("pad", g_[0], g_[1], tuple(sorted((k_, str(v_)) for k_, v_ in g_[2].items())))
    pres = []
    for c in sorted(cmds, key=lambda c: c["cyc"]):
        if c.get("cs_n", 0):
            continue
        e = l5_expected(c, masked)
        if e is not None:
            pres.append((c["cyc"], e))
    exp = []
    last = -10
    for t, e in pres:
        if t - last >= 2:
            exp.append((t, e))
            last = t
    stats = {"commands": len(pres), "emitted": len(exp), "suppressed_overlaps": len(pres) - len(exp), "decoded": len(got),
             "deselected_noise": sum(1 for c in cmds if c.get("cs_n", 0))}
    for k in KIND:
        stats["k_" + k] = sum(1 for c in cmds if c["k"] == k)
    def compare(got, where):
        if not (exp or got):
            return None
        if not exp or not got:
            return "%s: %d command(s) emitted, %d expected" % (where, len(got), len(exp))
        L = got[0][0] - exp[0][0]
        for j in range(max(len(exp), len(got))):
            if j >= len(exp):
                return "%s: extra command at cycle %d: %s %s" % (where, got[j][0], got[j][1], got[j][2])
            if j >= len(got):
                return "%s: command missing: %s %s presented in cycle %d" % (where, exp[j][1][0], exp[j][1][1], exp[j][0])
            if (got[j][0] - L, got[j][1], got[j][2]) != (exp[j][0], exp[j][1][0], exp[j][1][1]):
                return ("%s: command #%d is %s %s at cycle %d, DFI asked for %s %s in cycle %d (+%d)"
                        % (where, j, got[j][1], got[j][2], got[j][0], exp[j][1][0], exp[j][1][1], exp[j][0], L))
        return None
    msg = compare(got, "PHY output words")
    if msg:
        viol.add("ca_sequence", msg)
    msg = compare(got_pads, "CS/CA pads (sampled at the CK edges)")
    if msg:
        viol.add("ca_sequence_pads", msg)
    elif unstable is not None:
        viol.add("ca_sequence_pads", "CA changes at a CK edge while CS is high (quarter %d): not centre aligned" % unstable)
    stats["decoded_at_pads"] = len(got_pads)
    return {"violations": viol.v, "stats": stats, "cycles": ncyc, "sim_ps": sim.now, "digest": sim.digest(),
            "nontrivial": len(got) >= 2, "states": ["l5 m%d" % int(masked)],
            "summary": {"variant": "lpddr5", "dut": d, "cmds": len(cmds), "decoded": len(got)}}


def classify(scn, viol):
    """Known finding lpddr4-shadow-suppression: default (basic) overlap check masks on presented instead of emitted commands."""
    if viol.get("oracle") == "shadow_suppression" and not scn["dut"].get("extended"):
        return "lpddr4-shadow-suppression"
    return None


def witness(fid):
    if fid != "lpddr4-shadow-suppression":
        return None
    return {"property": ID, "seed": 0, "variant": "lpddr4", "dut": {"masked_write": True, "extended": False},
            "cmds": [{"cyc": 2, "ph": 0, "k": "ACT", "bank": 1, "addr": 5}, {"cyc": 2, "ph": 2, "k": "ACT", "bank": 2, "addr": 6},
                     {"cyc": 2, "ph": 5, "k": "PRE", "bank": 3, "addr": 0}]}


def run(scn):
    return run_l5(scn) if scn.get("variant") == "lpddr5" else run_l4(scn)


def gen_l5(rng, tier):
    d = {"masked_write": rng.random() < 0.5}
    n = rng.choice([2, 5, 12, 30]) if tier == "quick" else rng.choice([5, 20, 60])
    spacing = rng.choice(["legal", "legal", "tight", "overlap"])
    amode = rng.choice(["rand", "walk1", "ones"])
    cmds = []
    t = 3
    for i in range(n):
        k = rng.choice(["ACT", "ACT", "RD", "WR", "PRE", "REF", "MRS", "ZQC", "ZQC"])
        if amode == "rand":
            addr, bank = rng.getrandbits(18), rng.getrandbits(7)
        elif amode == "walk1":
            addr, bank = 1 << rng.randrange(18), 1 << rng.randrange(7)
        else:
            addr, bank = (1 << 18) - 1, rng.choice([15, 127])
        if rng.random() < 0.1:
            addr = 0               # all-zero operand / row / column
        if rng.random() < 0.05:
            bank = 0
        if k == "ZQC":
            bank = rng.choice([0, 0, 1, 1, 2, 2, 3, rng.getrandbits(7)])
            if bank == 0 and rng.random() < 0.3:
                addr = 0
        c = {"cyc": t, "k": k, "bank": bank, "addr": addr}
        if rng.random() < 0.08:
            c["cs_n"] = 1          # de-selected phase with active command pins: not a command
        cmds.append(c)
        t += {"legal": rng.choice([2, 2, 3, 5, 9]), "tight": 2, "overlap": rng.choice([1, 1, 2, 2, 3])}[spacing]
    return {"variant": "lpddr5", "dut": d, "cmds": cmds}


def gen(rng, tier, index):
    if rng.random() < 0.4:
        return gen_l5(rng, tier)
    d = {"masked_write": rng.random() < 0.5, "extended": rng.random() < 0.4}
    n = rng.choice([2, 5, 12, 30]) if tier == "quick" else rng.choice([5, 20, 60])
    spacing = rng.choice(["legal", "legal", "tight", "overlap"])
    if d["extended"] and spacing == "legal" and rng.random() < 0.6:
        spacing = "dense"        # the extended overlap check only matters when commands crowd each other: chains of overlaps
        n = max(n, 12)
    cmds = []
    t = 16 + rng.randrange(8)
    amode = rng.choice(["rand", "walk1", "ones"])
    for i in range(n):
        k = rng.choice(["ACT", "ACT", "RD", "WR", "PRE", "REF", "MRS", "ZQC", "ZQC"])
        if amode == "rand":
            addr, bank = rng.getrandbits(17), rng.getrandbits(6)
        elif amode == "walk1":
            addr, bank = 1 << rng.randrange(17), 1 << rng.randrange(6)
        else:
            addr, bank = (1 << 17) - 1, rng.choice([7, 63])
        if rng.random() < 0.1:
            addr = 0               # all-zero operand / row / column
        if rng.random() < 0.05:
            bank = 0
        if k == "ZQC":
            bank = rng.choice([0, 0, 1, 1, 2, rng.getrandbits(6)])
        c = {"cyc": t // 8, "ph": t % 8, "k": k, "bank": bank, "addr": addr}
        if rng.random() < 0.08:
            c["cs_n"] = 1          # de-selected phase with active command pins: not a command
        cmds.append(c)
        if spacing == "legal":
            t += rng.choice([4, 4, 5, 6, 8, 9, 16, 23])
        elif spacing == "tight":
            t += rng.choice([4, 4, 4, 5])
        elif spacing == "dense":
            t += rng.choice([1, 1, 2, 2, 3, 3, 4, 6])
        else:
            t += rng.choice([1, 2, 3, 4, 4, 5, 7])
    if rng.random() < 0.35:
        d["double_rate"] = True
    return {"variant": "lpddr4", "dut": d, "cmds": cmds}
