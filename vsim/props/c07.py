"""C07 — width-converted ports behave like one memory at the narrower or wider width.

System under simulation (real code): litedram.frontend.adapter.LiteDRAMNativePortConverter
(up- and down-converter, litex stream library cells) — stand-alone between the NativeMaster agent and
the NativeMemSlave stub (variant "stub"), or created by crossbar.get_port(data_width=...) on the whole
core (variant "core", see corebench).
"""
from migen import *

from litedram.common import LiteDRAMNativePort
from litedram.frontend.adapter import LiteDRAMNativePortConverter

from ..engine import Sim
from ..agents import StallCounter, NativeMaster, NativeMemSlave, RefMem, Violations, word_of, init_byte

ID = "C07"
LEVEL = "exploration"
TIERS = {"quick": {"runs": 1500}, "thorough": {"runs": 40000}}
RULE = ("one case = one seeded scenario (converter ratio/direction/mode/reverse, op list with address order, "
        "byte enables, last/flush hints and delays, memory-side latencies and cmd.ready stalls); non-trivial = "
        "at least 2 user commands completed and the converter merged/split at least one command; distinct = "
        "distinct event-log digest")
ASSUMPTIONS = [
    "master holds each command until accepted, queues write data no later than the command, rdata.ready=1",
    "the final command of a sequence carries cmd.last=1 (documented requirement of the up-converter)",
    "memory side = NativeMemSlave: in-order grants >= 2 cycles after acceptance, wdata strobe wl+1 and read "
    "data rl+1 cycles after the grant regardless of valid/ready (the real crossbar's contract, rl > wl)",
]
REAL = ["litedram.frontend.adapter.LiteDRAMNativePortConverter (Up/DownConverter)", "litex stream.StrideConverter/SyncFIFO"]
STUB = ["NativeMaster (user)", "NativeMemSlave (controller side)"]
SHRINK = {"lists": ["ops", "extra", "cmd_ready"], "zero": ["delay", "early", "last"]}


# ---- address mapping between the user's byte view and the memory's byte space ----------------------

class View:
    def __init__(self, from_dw, to_dw, reverse):
        self.fb, self.tb = from_dw // 8, to_dw // 8
        self.up = to_dw > from_dw
        self.r = (to_dw // from_dw) if self.up else (from_dw // to_dw)
        self.rev = reverse

    def mem_bytes(self, a):
        """memory byte addresses of the bytes 0..fb-1 of user word `a`."""
        if self.up:
            A, c = divmod(a, self.r)
            slot = self.r - 1 - c if self.rev else c
            base = A * self.tb + slot * self.fb
            return [base + b for b in range(self.fb)]
        out = []
        for c in range(self.r):      # user chunk c
            i = self.r - 1 - c if self.rev else c
            base = (a * self.r + i) * self.tb
            out += [base + b for b in range(self.tb)]
        return out


def build(d):
    aw = d.get("aw", 12)
    pf = LiteDRAMNativePort(d.get("mode", "both"), aw, d["from_dw"])
    up = d["to_dw"] > d["from_dw"]
    r = d["to_dw"] // d["from_dw"] if up else d["from_dw"] // d["to_dw"]
    lg = r.bit_length() - 1
    pt = LiteDRAMNativePort(d.get("mode", "both"), aw - lg if up else aw + lg, d["to_dw"])
    dut = LiteDRAMNativePortConverter(pf, pt, d.get("reverse", False))
    return dut, pf, pt


def run(scn):
    if scn.get("variant") == "core":
        from ..corebench import run_core
        return run_core(scn, ("c07", "c01.final_image", "c01.missing_response", "c05.hang"))
    d = scn["dut"]
    dut, pf, pt = build(d)
    sim = Sim(dut, {"sys": 10000})
    viol = Violations(sim)
    view = View(d["from_dw"], d["to_dw"], d.get("reverse", False))
    ref = RefMem()
    ops = [dict(o) for o in scn["master"]["ops"]]
    # the final command of a sequence must carry last=1 (documented up-converter requirement)
    for o in reversed(ops):
        if "flush" not in o:
            o["last"] = 1
            break
    expect = []       # expected read words in user command order
    stats = {"user_cmds": 0, "user_reads": 0, "user_writes": 0, "mem_cmds": 0, "partial_sel": 0,
             "last_hints": 0, "flush_pulses": 0, "rw_same_wide_word": 0, "mem_cmd_stall_cycles": 0,
             "delayed_grants": 0}
    state = {"prev": None}

    def on_cmd(op):
        stats["user_cmds"] += 1
        mb = view.mem_bytes(op["addr"])
        if op["we"]:
            stats["user_writes"] += 1
            sel = op.get("sel", (1 << view.fb) - 1)
            if sel != (1 << view.fb) - 1:
                stats["partial_sel"] += 1
            data = word_of(op["id"], view.fb)
            for b, m in enumerate(mb):
                if (sel >> b) & 1:
                    ref.m[m] = (data >> (8 * b)) & 0xFF
        else:
            stats["user_reads"] += 1
            v = 0
            for b, m in enumerate(mb):
                v |= ref.byte(m) << (8 * b)
            expect.append((op["id"], op["addr"], v))
        if op.get("last"):
            stats["last_hints"] += 1
        p = state["prev"]
        if p is not None and view.up and p["we"] != op["we"] and p["addr"] // view.r == op["addr"] // view.r:
            stats["rw_same_wide_word"] += 1
        state["prev"] = op
        sim.ev("ucmd", op["id"], op["we"], op["addr"])

    got = [0]

    def on_rdata(data):
        k = got[0]
        got[0] += 1
        sim.ev("urdata", data)
        if k >= len(expect):
            viol.add("spurious_rdata", "user port returned a read word (0x%x) with no read outstanding" % data)
            return
        oid, addr, v = expect[k]
        if data != v:
            viol.add("read_data", "read #%d (op %d, user addr 0x%x) returned 0x%x, expected 0x%x" % (k, oid, addr, data, v))

    m = scn["mem"]
    mem = NativeMemSlave(sim, pt, cmd_ready=m.get("cmd_ready"), max_out=m.get("max_out", 8), wl1=m.get("wl1", 1),
                         rl1=m.get("rl1", 3), extra=m.get("extra"), viol=viol)
    from ..agents import StateSampler
    cv = dut.converter
    samp = StateSampler(sim, [cv.fsm.state, pf.cmd.valid, pf.cmd.ready, pf.cmd.we, pf.wdata.ready, pf.rdata.valid, pt.cmd.valid, pt.cmd.ready,
                              pt.wdata.ready, pt.rdata.valid])
    mas = NativeMaster(sim, pf, ops, on_cmd=on_cmd, on_rdata=on_rdata)
    sc_mem = StallCounter(sim, pt.cmd.valid, pt.cmd.ready)
    nflush = sum(1 for o in ops if "flush" in o)
    stats["flush_pulses"] = nflush
    sim.add_agent("sys", mas)
    sim.add_agent("sys", mem)
    ncmd = sum(1 for o in ops if "flush" not in o)
    maxlat = max(m.get("extra") or [0]) + m.get("rl1", 3) + 4
    stall = sum(b for a, b in (m.get("cmd_ready") or [])) + 1
    cap = 400 + sum(o.get("delay", 0) for o in ops) + ncmd * (view.r * (4 + stall) + maxlat + 8)
    quiet = 0
    cyc = 0
    while cyc < cap:
        sim.step()
        cyc += 1
        if mas.idle() and mem.idle():
            quiet += 1
            if quiet > 4 * view.r + 24 + maxlat + max([b for a, b in (m.get("cmd_ready") or [])] or [0]):
                break
        else:
            quiet = 0
    if not (mas.idle() and mem.idle()):
        viol.add("hang", "not drained after %d cycles: user cmds accepted %d/%d, write words taken %d, reads returned %d/%d, "
                 "memory idle=%s" % (cyc, mas.ncmd, ncmd, mas.nw, got[0], len(expect), mem.idle()))
    else:
        if got[0] != len(expect):
            viol.add("read_count", "%d reads accepted but %d read words returned" % (len(expect), got[0]))
        # final image: every byte of the memory stub equals the reference byte view
        nbad = 0
        for A in sorted(mem.mem):
            w = mem.mem[A]
            for b in range(view.tb):
                mb = A * view.tb + b
                if (w >> (8 * b)) & 0xFF != ref.byte(mb):
                    nbad += 1
                    if nbad <= 2:
                        viol.add("final_image", "memory byte 0x%x (word 0x%x byte %d) holds 0x%02x, reference view says 0x%02x"
                                 % (mb, A, b, (w >> (8 * b)) & 0xFF, ref.byte(mb)))
        for mb in sorted(ref.m):
            A, b = divmod(mb, view.tb)
            if A not in mem.mem:
                if ref.m[mb] != init_byte(mb):
                    viol.add("final_image", "byte 0x%x written by the user never reached memory" % mb)
                    break
        # conservation
        if view.up:
            if mem.ncmd > mas.ncmd:
                viol.add("cmd_count", "up-converter issued %d memory commands for %d user commands" % (mem.ncmd, mas.ncmd))
        else:
            if mem.ncmd != view.r * mas.ncmd:
                viol.add("cmd_count", "down-converter issued %d memory commands for %d user commands (ratio %d)" % (mem.ncmd, mas.ncmd, view.r))
    stats["mem_cmds"] = mem.ncmd
    stats["mem_cmd_stall_cycles"] = sc_mem.n
    stats["merged_cmds"] = max(0, mas.ncmd - mem.ncmd) if view.up else 0
    stats["split_cmds"] = mem.ncmd if not view.up else 0
    stats["delayed_grants"] = sum(1 for e in (m.get("extra") or []) if e)
    nontrivial = mas.ncmd >= 2 and (stats["merged_cmds"] > 0 or stats["split_cmds"] > 0)
    return {"violations": viol.v, "stats": stats, "cycles": cyc, "sim_ps": sim.now, "digest": sim.digest(),
            "nontrivial": nontrivial,
            "states": samp.states("%s%d " % ("up" if view.up else "down", view.r)),
            "summary": {"dir": "up" if view.up else "down", "ratio": view.r, "ops": len(ops), "cycles": cyc}}


# ---- generation ---------------------------------------------------------------------------------------

def gen_pattern(rng, intensity=None):
    k = intensity if intensity is not None else rng.choice(["none", "none", "light", "heavy", "storm"])
    if k == "none":
        return []
    if k == "light":
        return [[rng.randint(2, 12), rng.randint(1, 2)] for _ in range(rng.randint(1, 4))]
    if k == "heavy":
        return [[rng.randint(1, 3), rng.randint(1, 6)] for _ in range(rng.randint(1, 5))]
    return [[rng.randint(1, 20), rng.randint(10, 60)] for _ in range(rng.randint(1, 3))]


def gen_extra(rng):
    k = rng.choice(["none", "none", "some", "bursty", "long"])
    if k == "none":
        return [0]
    if k == "some":
        return [rng.choice([0, 0, 0, 1, 2, 3]) for _ in range(rng.randint(2, 9))]
    if k == "bursty":
        return [rng.choice([0, 0, 0, 0, rng.randint(5, 40)]) for _ in range(rng.randint(3, 11))]
    return [rng.randint(0, 30) for _ in range(rng.randint(1, 5))]


def gen_mem(rng):
    wl1 = rng.randint(1, 6)
    return {"cmd_ready": gen_pattern(rng), "max_out": rng.randint(3, 20), "wl1": wl1,
            "rl1": rng.randint(wl1 + 1, 14), "extra": gen_extra(rng)}


def gen_ops(rng, n, ratio, up, nbytes, mode, aw_words, wide=None):
    """Address orders inside and across wide words; read/write mix; byte enables; hints; delays."""
    nwide = rng.choice([1, 1, 2, 3, 6])
    if wide is None:
        top = (1 << 12) // (ratio if up else 1)
        pool = list(range(0, max(8, aw_words))) + [top - 1, top - 2, top // 2, top // 2 - 1]
        wide = rng.sample(pool, nwide)
    order = rng.choice(["asc", "desc", "rep", "rand", "stride", "mix"])
    wmix = {"both": rng.choice([0.0, 0.3, 0.5, 0.7, 1.0]), "write": 1.0, "read": 0.0}[mode]
    dl = rng.choice(["zero", "zero", "small", "gaps"])
    sel_mode = rng.choice(["full", "full", "rand", "sparse"])
    last_p = rng.choice([0.0, 0.0, 0.1, 0.5])
    flush_p = rng.choice([0.0, 0.0, 0.05, 0.2])
    ops = []
    sub = ratio if up else 1
    cur_w = rng.choice(wide)
    pos = 0
    we = 1 if rng.random() < wmix else 0
    run_left = rng.randint(1, 2 * sub + 2)
    for i in range(n):
        if order == "mix":
            o = rng.choice(["asc", "desc", "rep", "rand"])
        else:
            o = order
        if o == "asc":
            pos = (pos + 1) % sub if i else 0
        elif o == "desc":
            pos = (pos - 1) % sub
        elif o == "rep":
            pos = pos if rng.random() < 0.6 else rng.randrange(sub)
        elif o == "stride":
            pos = (pos + 2) % sub if sub > 1 else 0
        else:
            pos = rng.randrange(sub)
        run_left -= 1
        if run_left <= 0:
            run_left = rng.randint(1, 2 * sub + 2)
            cur_w = rng.choice(wide)
            if mode == "both" and rng.random() < 0.6:
                we = 1 if rng.random() < wmix else 0
        elif mode == "both" and rng.random() < 0.08:
            we = 1 if rng.random() < wmix else 0
        addr = cur_w * sub + pos
        op = {"id": i + 1, "we": we, "addr": addr}
        if we:
            if sel_mode == "rand":
                op["sel"] = rng.getrandbits(nbytes)
            elif sel_mode == "sparse" and rng.random() < 0.5:
                op["sel"] = 1 << rng.randrange(nbytes)
            if rng.random() < 0.15:
                op["early"] = 1
        if dl == "small":
            op["delay"] = rng.choice([0, 0, 0, 1, 2, 3])
        elif dl == "gaps":
            op["delay"] = rng.choice([0, 0, 0, 0, rng.randint(4, 40)])
        if rng.random() < last_p:
            op["last"] = 1
        ops.append(op)
        if rng.random() < flush_p:
            ops.append({"flush": rng.randint(1, 3), "delay": rng.choice([0, 0, 1, 5, 20])})
    return ops


def gen_core_variant(rng, tier, cdc=False):
    """Converted (and/or clock-crossed) user port created by crossbar.get_port() on the whole core, working in a
    private address region next to ordinary native ports."""
    from .. import coregen
    core, info = coregen.gen_core(rng, nports=rng.choice([1, 2, 3]), nranks=1)
    amap = coregen.amap_of(core, info)
    ndw = info["data_bytes"] * 8
    conv = (not cdc) or rng.random() < 0.6
    up = rng.random() < 0.6
    ratio = 1
    udw = ndw
    if conv:
        if up:
            ratio = rng.choice([r for r in (2, 4, 8, 16, 32) if ndw // r >= 8] or [1])
            udw = ndw // ratio
        else:
            ratio = rng.choice([r for r in (2, 4, 8) if ndw * r <= 1024])
            udw = ndw * ratio
        if ratio == 1:
            conv = False
    pc = core["ports"][0]
    pc["data_width"] = udw
    pc["reverse"] = conv and rng.random() < 0.2
    clocks = None
    if cdc:
        pc["cd"] = "usr0"
        sysp = core["clk_period_ps"]
        usrp = rng.choice([sysp * 2, sysp * 3, sysp // 2, sysp // 4, sysp, sysp + 13, rng.randint(sysp // 8, sysp * 8)])
        if conv and udw < ndw and rng.random() < 0.85:
            # up-converted + clock-crossed port: keep the user clock clearly faster than sys in most runs
            # (see known finding cdc-upconv-write-lead for what happens otherwise)
            usrp = sysp // rng.choice([2, 3, 4, 8])
        clocks = {"usr0": {"period": usrp, "phase": rng.randrange(usrp)}}
    nb = 1 << info["bankbits"]
    nrows = 1 << info["rowbits"]
    # private region of the user port: a few rows nobody else touches
    priv = [(0, rng.randrange(nb), r) for r in rng.sample(range(2, min(nrows, 4096)), rng.choice([1, 2]))]
    hot = [h for h in coregen.gen_hot(rng, info, 1) if all(h[2] != p[2] for p in priv)] or [(0, 0, 0), (0, 0, 1)]
    ncolw = 1 << (info["colbits"] - info["align"])
    wide_native = []
    for (rk, bk, row) in priv:
        for _ in range(rng.choice([1, 2, 3])):
            colw = rng.randrange(ncolw)
            col = colw << info["align"]
            if info["colbits"] > 10:
                col = (col & 0x3FF) | ((col >> 10) << 11)
            wide_native.append(amap.inv(rk, bk, row, col))
    n = rng.choice([2, 6, 15, 40]) if tier == "quick" else rng.choice([5, 20, 60, 120])
    if udw <= ndw:
        ops = gen_ops(rng, n, ratio, True, udw // 8, "both", 0, wide=wide_native)
    else:
        # user word a covers native words a*ratio .. a*ratio+ratio-1
        ops = gen_ops(rng, n, ratio, False, udw // 8, "both", 0, wide=sorted(set(w // ratio for w in wide_native)))
    ports = [{"ops": ops}]
    if cdc:
        ports[0]["rready"] = gen_pattern(rng)
    for i in range(1, len(core["ports"])):
        ports.append({"ops": coregen.gen_port_ops(rng, amap, info, rng.choice([3, 10, 40]), hot, id0=1 + 100000 * i)})
    total = sum(len(p["ops"]) for p in ports)
    delay = sum(o.get("delay", 0) for p in ports for o in p["ops"])
    scn = {"variant": "core", "core": core, "ports": ports,
           "limits": {"max_cycles": 6000 + (100 + 30 * ratio) * total * (4 if cdc else 1) + delay * 8, "tail": 300 if cdc else 80}}
    if clocks:
        scn["clocks"] = clocks
    return scn


def gen(rng, tier, index):
    if rng.random() < 0.12:
        return gen_core_variant(rng, tier)
    up = rng.random() < 0.65
    if up:
        ratio = rng.choice([2, 2, 4, 4, 8, 16, 32])
        from_dw = rng.choice([w for w in (8, 16, 32, 64) if w * ratio <= 512])
        to_dw = from_dw * ratio
    else:
        ratio = rng.choice([2, 2, 4, 8])
        to_dw = rng.choice([8, 16, 32, 64])
        from_dw = to_dw * ratio
    mode = rng.choice(["both", "both", "both", "write", "read"])
    n = rng.choice([1, 2, 3, 4, 6, 10, 20, 40, 80]) if tier == "quick" else rng.choice([2, 3, 5, 10, 30, 80, 200])
    d = {"from_dw": from_dw, "to_dw": to_dw, "mode": mode, "reverse": rng.random() < 0.25, "aw": 12}
    ops = gen_ops(rng, n, ratio, up, from_dw // 8, mode, 16)
    return {"variant": "stub", "dut": d, "mem": gen_mem(rng), "master": {"ops": ops}}

LEVEL_TEXT = ("Seeded exploration of the real LiteDRAMNativePortConverter under adversarial user-side orders/hints/delays and "
              "memory-side latencies/stalls, judged by a byte-granular reference memory (per-read data, final image, conservation). "
              "Sampling, not proof: a clean batch is evidence over the explored schedules.")
LEVEL_NOTE = ("Trusted: the compiled evaluator (cross-checked against migen.sim), the NativeMaster/NativeMemSlave contracts "
              "(DESIGN.md §4.1/4.2), the byte-view address mapping of this module.")
