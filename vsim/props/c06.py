"""C06 — port addresses map one-to-one onto DRAM locations."""
from ..corebench import run_core
from .. import coregen
from ..dramref import log2i
from . import _corecommon as cc
from ._corecommon import LEVEL, REAL, STUB, SHRINK, LEVEL_NOTE, simplify  # noqa

ID = "C06"
TIERS = {"quick": {"runs": 200}, "thorough": {"runs": 5000}}
WANT = ("c06", "c02.row_mismatch", "c02.col_on_closed_bank", "c02.col_without_request", "c01.final_image", "c01.read_data")
RULE = ("one case = one geometry (bankbits 1..4, colbits 8..12, rowbits, burst alignment via memtype/rate, 1..2 ranks, bank_byte_alignment) with "
        "addresses exercising every address bit (walking ones/zeros, field boundaries, carries across column->bank->row, random); for each accepted "
        "command the independent AddrMap predicts (rank, bank, row, column) and the DFI bus must carry exactly that; aliasing shows in the final image; "
        "non-trivial = >= 2 commands; distinct = distinct event-log digest")
ASSUMPTIONS = cc.COMMON_ASSUMPTIONS + ["AddrMap is a bit permutation (bijective by construction); the hardware is shown to agree with it on the sampled addresses"]
LEVEL_TEXT = ("Seeded exploration over geometries and address patterns, observing the mapping where it is observable: bank/row of the ACT and "
              "bank/column of RD/WR on the DFI bus after the request travelled through the real crossbar and bank machines. Sampling, not proof.")


def gen(rng, tier, index):
    core, info = coregen.gen_core(rng, lib=rng.random() < 0.15, nports=rng.choice([1, 1, 2]), refresh=rng.random() < 0.5)
    if rng.random() < 0.5:
        nb = info["data_bytes"]
        ncol = info["colbits"] - info["align"]
        k = rng.randint(0, min(16, ncol + info["rowbits"] - 2))
        core["ctrl"]["bank_byte_alignment"] = nb << k
    amap = coregen.amap_of(core, info)
    aw = amap.aw
    addrs = [0, (1 << aw) - 1]
    mode = rng.choice(["walk1", "walk0", "bounds", "carry", "rand", "mix"])
    if mode in ("walk1", "mix"):
        addrs += [1 << b for b in range(aw)]
    if mode in ("walk0", "mix"):
        addrs += [((1 << aw) - 1) ^ (1 << b) for b in range(aw)]
    if mode in ("bounds", "mix"):
        for sh in (amap.ncol, amap.shift, amap.shift + amap.bb):
            for d in (-2, -1, 0, 1):
                addrs.append(((1 << sh) + d) % (1 << aw))
    if mode in ("carry", "mix"):
        base = rng.getrandbits(aw)
        base |= (1 << min(aw - 1, amap.shift + amap.bb)) - 1
        addrs += [(base + d) % (1 << aw) for d in range(-3, 6)]
    addrs += [rng.getrandbits(aw) for _ in range(rng.choice([4, 16, 40]))]
    rng.shuffle(addrs)
    nports = len(core["ports"])
    ports = [{"ops": []} for _ in range(nports)]
    oid = 1
    written = []
    for a in addrs:
        p = rng.randrange(nports)
        ports[p]["ops"].append({"id": oid + 100000 * p, "we": 1, "addr": a})
        written.append((p, a))
        oid += 1
    # read everything back (same port that wrote it, after its writes) to expose aliasing
    for p, a in written:
        ports[p]["ops"].append({"id": oid + 100000 * p, "we": 0, "addr": a})
        oid += 1
    total = 2 * len(addrs)
    return {"core": core, "ports": ports, "limits": {"max_cycles": 6000 + 120 * total, "tail": 60}}


def run(scn):
    return run_core(scn, WANT)
