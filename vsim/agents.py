"""Shared agents and reference models (DESIGN.md §4): patterns, native-port master, NativeMemSlave,
stream driver/sink, byte-granular RefMem.

Every decision an agent takes is an explicit entry of the scenario (delays, patterns); agents never draw
random numbers and never read a wall clock.
"""

M32 = 0xFFFFFFFF


def data_byte(wid, b):
    """Byte `b` of the word written by write-id `wid` (unique-ish per (wid, b))."""
    x = (wid * 0x9E3779B1 + b * 0x85EBCA6B + 0x27D4EB2F) & M32
    x ^= x >> 15
    x = (x * 0x2C1B3C6D) & M32
    x ^= x >> 12
    return x & 0xFF


def init_byte(a):
    """Initial content of byte address `a` of every reference memory."""
    x = (a * 0x45D9F3B + 0x1234567) & M32
    x ^= x >> 16
    x = (x * 0x45D9F3B) & M32
    x ^= x >> 13
    return x & 0xFF


def word_of(wid, nbytes):
    v = 0
    for b in range(nbytes):
        v |= data_byte(wid, b) << (8 * b)
    return v


def init_word(word_addr, nbytes):
    v = 0
    base = word_addr * nbytes
    for b in range(nbytes):
        v |= init_byte(base + b) << (8 * b)
    return v


class Pattern:
    """Cyclic high/low run-length pattern: [[hi, lo], ...]; empty/None = always high."""
    __slots__ = ("runs", "i", "left", "level", "always")

    def __init__(self, runs):
        self.runs = [(int(a), int(b)) for a, b in runs] if runs else []
        self.always = not self.runs or all(b == 0 for a, b in self.runs)
        self.i = 0
        self.level = 1
        self.left = self.runs[0][0] if self.runs else 0
        self._skip()

    def _skip(self):
        n = 0
        while not self.always and self.left <= 0 and n < 4 * len(self.runs) + 4:
            if self.level:
                self.level = 0
                self.left = self.runs[self.i][1]
            else:
                self.level = 1
                self.i = (self.i + 1) % len(self.runs)
                self.left = self.runs[self.i][0]
            n += 1

    def next(self):
        if self.always:
            return 1
        v = self.level
        self.left -= 1
        self._skip()
        return v


class RefMem:
    """Byte-granular reference memory: byte address -> value; default = init_byte."""

    def __init__(self):
        self.m = {}

    def write(self, word_addr, nbytes, data, sel):
        base = word_addr * nbytes
        for b in range(nbytes):
            if (sel >> b) & 1:
                self.m[base + b] = (data >> (8 * b)) & 0xFF

    def read(self, word_addr, nbytes):
        base = word_addr * nbytes
        v = 0
        m = self.m
        for b in range(nbytes):
            x = m.get(base + b)
            if x is None:
                x = init_byte(base + b)
            v |= x << (8 * b)
        return v

    def byte(self, a):
        x = self.m.get(a)
        return init_byte(a) if x is None else x


class Violations:
    """Collects oracle failures of one run (first `cap` kept)."""

    def __init__(self, sim, cap=8):
        self.sim = sim
        self.cap = cap
        self.v = []
        self.extra = None      # optional callable returning context fields recorded with each violation

    def add(self, oracle, msg, **kw):
        if len(self.v) < self.cap:
            d = {"oracle": oracle, "msg": msg, "t": self.sim.now}
            d.update(kw)
            if self.extra is not None:
                d.update(self.extra())
            self.v.append(d)
            self.sim.ev("VIOLATION", oracle)

    def __bool__(self):
        return bool(self.v)


class NativeMaster:
    """Native-port master honouring the C01/C07 master assumptions.

    ops: list of dicts  {id, we, addr, sel?, delay?, last?, early?}  or  {flush: n, delay?}
    * a command is held (stable) until accepted;
    * the data of a write is queued on wdata no later than the cycle its command is first offered
      (`early`: already when the previous command was accepted) and held until taken;
    * rdata.ready follows `rready` pattern (None = constant 1).
    Callbacks: on_cmd(op), on_wdata(op, data, we, valid_seen), on_rdata(data).
    """

    def __init__(self, sim, port, ops, name="m", rready=None, wvalid_pattern=None,
                 on_cmd=None, on_wdata=None, on_rdata=None, max_reads=None, loop=False):
        self.sim = sim
        self.name = name
        self.ops = ops
        self.loop = loop and bool(ops)
        self.nloop = 0
        self.nbytes = port.data_width // 8
        ix = sim.index
        self.i_cv, self.i_cr = ix(port.cmd.valid), ix(port.cmd.ready)
        self.i_cwe, self.i_ca = ix(port.cmd.we), ix(port.cmd.addr)
        self.i_clast = ix(port.cmd.last)
        self.i_wv, self.i_wr = ix(port.wdata.valid), ix(port.wdata.ready)
        self.i_wd, self.i_wwe = ix(port.wdata.data), ix(port.wdata.we)
        self.i_rv, self.i_rr, self.i_rd = ix(port.rdata.valid), ix(port.rdata.ready), ix(port.rdata.data)
        self.i_flush = ix(port.flush)
        self.rready = Pattern(rready)
        self.on_cmd, self.on_wdata, self.on_rdata = on_cmd, on_wdata, on_rdata
        self.on_offer = None
        self.max_reads = max_reads
        self.k = 0                  # next op index
        self.cur = None             # op being offered
        self.wait = ops[0].get("delay", 0) if ops else 0
        self.wq = []                # queued write data: (op, data, sel)
        self.wq_ids = set()
        self.cv = 0                 # what we drive
        self.wv = 0
        self.rr = 1
        self.flush_left = 0
        self.reads_out = 0
        self.ncmd = self.nw = self.nr = 0
        self.all_sel = (1 << self.nbytes) - 1
        sim.poke(self.i_rr, 1)
        self.done_issuing = not ops

    def _queue_data(self, op):
        if op["id"] in self.wq_ids:
            return
        self.wq_ids.add(op["id"])
        self.wq.append((op, word_of(op["id"], self.nbytes), op.get("sel", self.all_sel)))

    def idle(self):
        return self.done_issuing and self.cur is None and not self.wq and self.reads_out == 0

    def __call__(self, sim):
        S = sim.S
        poke = sim.poke
        # ---- observe handshakes that happen on this edge
        if self.cv and S[self.i_cr]:
            op = self.cur
            self.ncmd += 1
            if not op["we"]:
                self.reads_out += 1
            if self.on_cmd:
                self.on_cmd(op)
            self.cur = None
            self.cv = 0
            self.k += 1
            if self.k >= len(self.ops) and self.loop:
                # replay the list with fresh write ids (data stays attributable)
                self.nloop += 1
                self.k = 0
                self.ops = [dict(o, id=o["id"] + 10000000) if "id" in o else o for o in self.ops]
            if self.k < len(self.ops):
                nxt = self.ops[self.k]
                self.wait = nxt.get("delay", 0)
                if nxt.get("we") and nxt.get("early"):
                    self._queue_data(nxt)
            else:
                self.done_issuing = True
        if S[self.i_wr]:
            # the slave takes whatever is on the wires (the crossbar ignores wdata.valid)
            if self.wv:
                op, data, sel = self.wq.pop(0)
                self.nw += 1
                if self.on_wdata:
                    self.on_wdata(op, data, sel, 1)
        if S[self.i_rv] and self.rr:
            self.nr += 1
            self.reads_out -= 1
            if self.on_rdata:
                self.on_rdata(S[self.i_rd])
        # ---- decide next outputs
        if self.flush_left:
            self.flush_left -= 1
            if not self.flush_left:
                poke(self.i_flush, 0)
        if self.cur is None and not self.done_issuing:
            op = self.ops[self.k]
            if op.get("sync") and (self.wq or self.reads_out):
                pass        # "sync" op: everything before it has retired before its delay starts
            elif self.wait > 0:
                self.wait -= 1
            elif "flush" in op:
                poke(self.i_flush, 1)
                self.flush_left = max(1, op["flush"])
                self.k += 1
                if self.k < len(self.ops):
                    self.wait = self.ops[self.k].get("delay", 0)
                else:
                    self.done_issuing = True
            elif (not op["we"]) and self.max_reads is not None and self.reads_out >= self.max_reads:
                pass
            else:
                self.cur = op
                self.cv = 1
                if self.on_offer:
                    self.on_offer(op)
                if op["we"]:
                    self._queue_data(op)
                poke(self.i_cv, 1)
                poke(self.i_cwe, op["we"])
                poke(self.i_ca, op["addr"])
                poke(self.i_clast, op.get("last", 0))
        if not self.cv:
            poke(self.i_cv, 0)
        if self.wq:
            op, data, sel = self.wq[0]
            self.wv = 1
            poke(self.i_wv, 1)
            poke(self.i_wd, data)
            poke(self.i_wwe, sel)
        else:
            self.wv = 0
            poke(self.i_wv, 0)
        rr = self.rready.next()
        if rr != self.rr:
            self.rr = rr
            poke(self.i_rr, rr)


class MemGroup:
    """Memory shared by several NativeMemSlave ports."""

    def __init__(self):
        self.mem = {}
        self.seq = 0
        self.members = []


class NativeMemSlave:
    """Native-port memory stub with the real crossbar's contract (DESIGN.md §4.2).

    * cmd.ready follows `cmd_ready` pattern, at most `max_out` commands outstanding;
    * accepted commands are *granted* in acceptance order, grant_k >= accept_k + 2 + extra[k] and at most
      one grant per cycle; a granted write gets its wdata.ready pulse `wl1` cycles later and whatever is
      on the wdata wires in that cycle is stored **regardless of wdata.valid**; a granted read gets one
      rdata.valid pulse `rl1` cycles later **regardless of rdata.ready**, carrying the memory contents as
      of its position in the grant order;
    memory: dict word address -> value (default init_word), word = port data width.
    """

    def __init__(self, sim, port, cmd_ready=None, max_out=8, wl1=1, rl1=3, extra=None, viol=None,
                 name="mem", on_cmd=None, honour_wvalid=False, group=None, honour_rready=False):
        self.honour_rready = honour_rready
        self.sim = sim
        self.name = name
        self.nbytes = port.data_width // 8
        ix = sim.index
        self.i_cv, self.i_cr = ix(port.cmd.valid), ix(port.cmd.ready)
        self.i_cwe, self.i_ca = ix(port.cmd.we), ix(port.cmd.addr)
        self.i_wv, self.i_wr = ix(port.wdata.valid), ix(port.wdata.ready)
        self.i_wd, self.i_wwe = ix(port.wdata.data), ix(port.wdata.we)
        self.i_rv, self.i_rr, self.i_rd = ix(port.rdata.valid), ix(port.rdata.ready), ix(port.rdata.data)
        self.cmd_ready = Pattern(cmd_ready)
        self.max_out = max_out
        self.wl1 = max(1, wl1)
        self.rl1 = max(self.wl1 + 1, rl1)    # every PHY has read_latency > write_latency
        self.extra = list(extra) if extra else [0]
        self.viol = viol
        self.on_cmd = on_cmd
        # ports sharing one memory (same-address order across ports = acceptance order, as through one bank)
        self.group = group if group is not None else MemGroup()
        self.group.members.append(self)
        self.mem = self.group.mem
        self.cyc = 0
        self.cr = 0
        self.pend = []          # accepted, not yet granted: [we, addr, earliest_grant, seq, snap]
        self.wpipe = []         # granted writes: [due_cycle, addr]
        self.rpipe = []         # granted reads: [due_cycle, data]
        self.wr_now = None      # address whose strobe is currently driven
        self.rv = 0
        self.ncmd = 0
        self.out = 0
        self.nwlost = 0
        self.nwdone = 0
        self.nrlost = 0
        self.log = []           # (kind, addr, data, we)

    def read_word(self, a):
        v = self.mem.get(a)
        return init_word(a, self.nbytes) if v is None else v

    def _blocked(self, e):
        """A read is not granted while another port of the group still has an earlier-accepted write to the same
        address in flight (through the real core both go through one bank, in acceptance order)."""
        if e[0] or len(self.group.members) == 1:
            return False
        a, seq = e[1], e[3]
        for g in self.group.members:
            if g is self:
                continue
            if g.wr_now is not None and g.wr_now[0] == a and g.wr_now[2] < seq:
                return True
            for w in g.wpipe:
                if w[1] == a and w[3] < seq:
                    return True
            for w in g.pend:
                if w[0] and w[1] == a and w[3] < seq:
                    return True
        return False

    def idle(self):
        return not self.pend and not self.wpipe and not self.rpipe and self.wr_now is None and not self.rv

    def __call__(self, sim):
        S = sim.S
        poke = sim.poke
        cyc = self.cyc
        # observe: command accepted on this edge
        if self.cr and S[self.i_cv]:
            we, a = S[self.i_cwe], S[self.i_ca]
            k = self.ncmd
            self.ncmd += 1
            self.out += 1
            self.group.seq += 1
            self.pend.append([we, a, cyc + 2 + self.extra[k % len(self.extra)], self.group.seq, None])
            if self.on_cmd:
                self.on_cmd(we, a)
            sim.ev(self.name, "cmd", we, a)
        # observe: write data strobe was high during the last cycle
        if self.wr_now is not None:
            a, wgrant, wseq = self.wr_now
            self.wr_now = None
            # reads accepted before this write (on any port of the group) must not see it: fix their value now
            for g in self.group.members:
                for r in g.rpipe:
                    if r[1] == a and r[2] is None and r[4] < wseq:
                        r[2] = self.read_word(a)
                for r in g.pend:
                    if not r[0] and r[1] == a and r[4] is None and r[3] < wseq:
                        r[4] = self.read_word(a)
            data, we, valid = S[self.i_wd], S[self.i_wwe], S[self.i_wv]
            if not valid:
                self.nwlost += 1
                if self.viol is not None:
                    self.viol.add("wdata_not_valid_at_strobe",
                                  "%s: wdata.ready pulsed for write to 0x%x but the port had no valid data" % (self.name, a))
            old = self.read_word(a)
            for b in range(self.nbytes):
                if (we >> b) & 1:
                    old = (old & ~(0xFF << (8 * b))) | (data & (0xFF << (8 * b)))
            self.mem[a] = old
            self.out -= 1
            self.nwdone += 1
            self.log.append(("w", a, data, we))
            sim.ev(self.name, "wdata", a, data, we, valid)
        hold = False
        if self.rv:
            if not S[self.i_rr]:
                if self.honour_rready:
                    hold = True       # variant of the stub for ports that are allowed to stall read data
                else:
                    self.nrlost += 1
                    if self.viol is not None:
                        self.viol.add("rdata_not_ready_at_valid",
                                      "%s: read data returned while the port was not ready to take it" % self.name)
            if not hold:
                self.out -= 1
        # grant (in order, one per cycle)
        if self.pend and self.pend[0][2] <= cyc and not self._blocked(self.pend[0]):
            we, a, _, seq, snap = self.pend.pop(0)
            if we:
                self.wpipe.append([cyc + self.wl1, a, cyc, seq])
            else:
                self.rpipe.append([cyc + self.rl1, a, snap, cyc, seq])
        # drive write strobe
        if self.wpipe and self.wpipe[0][0] <= cyc:
            _, a, g, seq = self.wpipe.pop(0)
            self.wr_now = (a, g, seq)
            poke(self.i_wr, 1)
        else:
            poke(self.i_wr, 0)
        # drive read data
        if hold:
            pass
        elif self.rpipe and self.rpipe[0][0] <= cyc:
            _, a, snap, _g, _seq = self.rpipe.pop(0)
            v = self.read_word(a) if snap is None else snap
            self.rv = 1
            poke(self.i_rv, 1)
            poke(self.i_rd, v)
            self.log.append(("r", a, v, 0))
            sim.ev(self.name, "rdata", a, v)
        else:
            self.rv = 0
            poke(self.i_rv, 0)
        # cmd.ready
        cr = self.cmd_ready.next() and (self.out < self.max_out)
        cr = 1 if cr else 0
        if cr != self.cr:
            self.cr = cr
            poke(self.i_cr, cr)
        self.cyc = cyc + 1


def _tag(sim):
    """Engine-independent ordinal of an agent within its simulation (event logs must not contain signal indices)."""
    n = getattr(sim, "_ntag", 0)
    sim._ntag = n + 1
    return n


class StreamDriver:
    """Drives a stream sink endpoint with a list of items (dict field -> value, plus `delay`)."""

    def __init__(self, sim, ep, items, fields, on_xfer=None):
        ix = sim.index
        self.i_v, self.i_r = ix(ep.valid), ix(ep.ready)
        self.fields = [(f, ix(getattr(ep, f))) for f in fields]
        self.items = items
        self.tag = _tag(sim)
        self.k = 0
        self.v = 0
        self.wait = items[0].get("delay", 0) if items else 0
        self.on_xfer = on_xfer
        self.n = 0

    def done(self):
        return self.k >= len(self.items) and not self.v

    def __call__(self, sim):
        S = sim.S
        if self.v and S[self.i_r]:
            it = self.items[self.k]
            self.n += 1
            sim.ev("tx", self.tag, self.k)
            if self.on_xfer:
                self.on_xfer(it)
            self.k += 1
            self.v = 0
            if self.k < len(self.items):
                self.wait = self.items[self.k].get("delay", 0)
        if not self.v:
            if self.k < len(self.items):
                if self.wait > 0:
                    self.wait -= 1
                    sim.poke(self.i_v, 0)
                else:
                    it = self.items[self.k]
                    self.v = 1
                    sim.poke(self.i_v, 1)
                    for f, i in self.fields:
                        sim.poke(i, it.get(f, 0))
            else:
                sim.poke(self.i_v, 0)


class StreamSink:
    """Consumes a stream source endpoint; ready follows a pattern; records transfers."""

    def __init__(self, sim, ep, fields, ready=None, on_xfer=None):
        ix = sim.index
        self.i_v, self.i_r = ix(ep.valid), ix(ep.ready)
        self.fields = [(f, ix(getattr(ep, f))) for f in fields]
        self.pat = Pattern(ready)
        self.tag = _tag(sim)
        self.r = 0
        self.on_xfer = on_xfer
        self.n = 0

    def __call__(self, sim):
        S = sim.S
        if self.r and S[self.i_v]:
            self.n += 1
            x = {f: S[i] for f, i in self.fields}
            sim.ev("rx", self.tag, tuple(x.values()))
            if self.on_xfer:
                self.on_xfer(x)
        r = self.pat.next()
        if r != self.r:
            self.r = r
            sim.poke(self.i_r, r)


class StreamMonitor:
    """Passive valid&ready monitor."""

    def __init__(self, sim, ep, fields, on_xfer):
        ix = sim.index
        self.i_v, self.i_r = ix(ep.valid), ix(ep.ready)
        self.fields = [(f, ix(getattr(ep, f))) for f in fields]
        self.on_xfer = on_xfer
        self.n = 0

    def __call__(self, sim):
        S = sim.S
        if S[self.i_v] and S[self.i_r]:
            self.n += 1
            self.on_xfer({f: S[i] for f, i in self.fields})


class StateSampler:
    """Reach measure: set of distinct tuples of the given signals (FSM states, handshake bits) seen at any cycle."""

    def __init__(self, sim, signals, domain="sys", cap=5000):
        self.idx = [sim.index(x) for x in signals]
        self.seen = set()
        self.cap = cap
        sim.add_agent(domain, self)

    def __call__(self, sim):
        if len(self.seen) < self.cap:
            S = sim.S
            self.seen.add(tuple(S[i] for i in self.idx))

    def states(self, prefix):
        return ["%s%r" % (prefix, t) for t in sorted(self.seen)]


def stuck(sim, cyc, limit=60000):
    """Progress watchdog shared by the frontend checks: True when the event log (every handshake of every agent is logged) has not grown
    for `limit` cycles.  It only shortens runs that would otherwise spin to their cycle cap; the verdict (hang) is the same."""
    w = getattr(sim, "_wd", None)
    if w is None or w[0] != sim.nev:
        sim._wd = (sim.nev, cyc)
        return False
    return cyc - w[1] > limit


class StallCounter:
    """Reach probe: counts the cycles in which `valid` is high and `ready` is low on one handshake (back-pressure actually applied)."""

    def __init__(self, sim, valid, ready, domain="sys"):
        self.iv, self.ir = sim.index(valid), sim.index(ready)
        self.n = 0
        sim.add_agent(domain, self)

    def __call__(self, sim):
        S = sim.S
        if S[self.iv] and not S[self.ir]:
            self.n += 1
