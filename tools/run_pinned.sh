#!/bin/sh
# usage: tools/run_pinned.sh <worktree>   -> runs the pinned test command; prints which of the 258 pinned (stable-pass) tests did not pass
wt=$1
x=$(mktemp /tmp/junit.XXXXXX.xml)
cd $wt && PYTHONPATH=$wt /venv/bin/python -m pytest -ra -q -p no:cacheprovider --timeout=900 --continue-on-collection-errors --junitxml=$x >/dev/null 2>&1
/venv/bin/python - $x <<'PY'
import sys, json, xml.etree.ElementTree as ET
want=set(json.load(open('/root/.vp/BASELINE.json'))['stable_pass'])
ok=set()
for tc in ET.parse(sys.argv[1]).getroot().iter('testcase'):
    if not any(c.tag in ('failure','error','skipped') for c in tc):
        ok.add(tc.get('classname')+'::'+tc.get('name'))
bad=sorted(want-ok)
print("PINNED: %d of %d pinned tests pass" % (len(want)-len(bad), len(want)))
for b in bad: print("  NOT PASSING:", b)
sys.exit(1 if bad else 0)
PY
rc=$?; rm -f $x; exit $rc
