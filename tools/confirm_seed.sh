#!/bin/sh
# usage: tools/confirm_seed.sh <ID> <mN> "<test files>"  : confirm demo passes on HEAD, fails with patch, tests pass with patch
id=$1; m=$2; tests=$3
src=/tmp/seed/out/$id/$m
patch=$src/patch.diff
[ -f /verif/seeded/$id-$m/patch.diff ] && patch=/verif/seeded/$id-$m/patch.diff
wt=/tmp/mut/confirm_$id_$m_$$
mkdir -p /tmp/mut; rm -rf $wt
git -C /repo worktree add --detach $wt HEAD -q || exit 2
cd $wt
PYTHONPATH=$wt timeout 900 /venv/bin/python $src/demo.py >/tmp/mut/$id$m.base.log 2>&1; b=$?
git apply $patch 2>/dev/null || git apply --3way $patch 2>/dev/null || { echo "$id $m PATCH-DOES-NOT-APPLY"; cd /; git -C /repo worktree remove --force $wt; exit 3; }
PYTHONPATH=$wt timeout 900 /venv/bin/python $src/demo.py >/tmp/mut/$id$m.mut.log 2>&1; a=$?
t="skipped"
if [ -n "$tests" ]; then
  PYTHONPATH=$wt timeout 1800 /venv/bin/python -m pytest -q -p no:cacheprovider -x $tests >/tmp/mut/$id$m.test.log 2>&1; t=$?
fi
echo "$id $m demo_without=$b demo_with=$a tests_rc=$t ($(tail -1 /tmp/mut/$id$m.test.log 2>/dev/null))"
cd /; git -C /repo worktree remove --force $wt
