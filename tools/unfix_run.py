#!/usr/bin/env python3
"""Regression sensitivity: revert each recorded fix: commit in a scratch worktree of /repo HEAD (never in /repo) and run the quick tier of the
property's check against it - the violation must come back.   usage: tools/unfix_run.py [-j N]"""
import json, os, re, subprocess, sys
from concurrent.futures import ThreadPoolExecutor
V = os.path.dirname(os.path.dirname(os.path.abspath(__file__)))
jobs = int(sys.argv[2]) if sys.argv[1:2] == ["-j"] else 2
fixed = json.load(open(V + "/known_findings.json"))["fixed"]
os.makedirs("/tmp/mut", exist_ok=True)


def one(entry):
    m = re.match(r"fixed: property=(C\d+) ([0-9a-f]+) ", entry)
    prop, h = m.group(1), m.group(2)
    patch = "/tmp/mut/unfix_%s.diff" % h
    with open(patch, "w") as f:
        f.write(subprocess.run(["git", "-C", "/repo", "diff", h, h + "^", "--", "litedram"], capture_output=True, text=True).stdout)
    p = subprocess.run([V + "/tools/seedtest.sh", prop, patch, "--no-shrink"], capture_output=True, text=True)
    out = p.stdout + p.stderr
    res = "violation returns" if re.search(r"^VIOLATION", out, re.M) else ("patch does not apply" if "PATCH-DOES-NOT-APPLY" in out else "NOT REPORTED")
    o = re.search(r"^violation: oracle=(\S+)", out, re.M)
    nv = re.search(r"(\d+) violating run", out)
    line = "%s %s: %s %s (%s violating runs)" % (prop, h, res, o.group(1) if o else "", nv.group(1) if nv else "?")
    print(line, flush=True)
    return line


with ThreadPoolExecutor(jobs) as ex:
    lines = list(ex.map(one, fixed))
open(V + "/seeded/UNFIX.md", "w").write("# Each recorded fix: commit reverted in a scratch worktree, quick tier of the property's check\n\n" + "\n".join("- " + l for l in lines) + "\n")
