#!/bin/sh
# run the quick tier of each property's check against every seeded change; writes seeded/SUMMARY.md and updates meta.json
cd /verif
out=seeded/SUMMARY.md
echo "# Seeded changes vs. checks (quick tier, VERIF_SEED=0)" > $out
echo "" >> $out
echo "| change | files | result | first oracle reported |" >> $out
echo "|---|---|---|---|" >> $out
for d in seeded/C*-m*; do
  id=$(basename $d); prop=${id%%-*}
  res=$(tools/seedtest.sh $prop /verif/$d/patch.diff --no-shrink 2>&1)
  orc=$(echo "$res" | grep "^violation:" | head -1 | sed 's/violation: oracle=\([^ ]*\).*/\1/')
  if echo "$res" | grep -q "^VIOLATION"; then r="caught"; else r="MISSED"; fi
  if echo "$res" | grep -q "PATCH-DOES-NOT-APPLY"; then r="patch does not apply"; fi
  files=$(python3 -c "import json;print(', '.join(json.load(open('$d/meta.json'))['files_touched']))")
  echo "| $id | $files | $r | $orc |" >> $out
  python3 - "$d" "$r" "$orc" <<'PY'
import json,sys
p=sys.argv[1]+"/meta.json"; m=json.load(open(p)); m["check_result"]={"check":"./check %s --tier quick"%m["property"],"result":sys.argv[2],"oracle":sys.argv[3]}; json.dump(m,open(p,"w"),indent=1)
PY
  echo "$id $r $orc"
done
