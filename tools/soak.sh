#!/bin/sh
# usage: tools/soak.sh <first_seed> <last_seed> [tier] [props...]  -> false-alarm soak: every check on the unchanged tree under other VERIF_SEEDs
cd "$(dirname "$0")/.."
a=$1; b=$2; tier=${3:-quick}; shift 3 2>/dev/null
props=${*:-C01 C02 C03 C04 C05 C06 C07 C08 C09 C10 C11 C12 C13 C14 C15 C18 C19 C20}
bad=0
for sd in $(seq $a $b); do
  for p in $props; do
    out=$(VERIF_SEED=$sd ./check $p --tier $tier --no-evidence 2>&1); rc=$?
    if [ $rc -ne 0 ]; then bad=1; echo "SOAK-FAIL seed=$sd prop=$p rc=$rc"; echo "$out" | grep "^violation\|^VIOLATION\|^HARNESS" | head -6; fi
  done
  echo "seed $sd done"
done
[ $bad = 0 ] && echo "SOAK-CLEAN seeds $a..$b tier $tier"
exit $bad
