#!/venv/bin/python
"""Self-tests of the simulator (DESIGN.md §8.4).

  tools/selftest.py engine [props...]   same scenarios on the compiled evaluator and on migen.sim's Evaluator: event-log
                                        digests, violations and cycle counts must be identical
  tools/selftest.py determinism [props...]  each check twice: PYTHONHASHSEED 0 / 12345 and 1 / 16 workers, DIGEST lines must agree
"""
import os, sys, random, subprocess, time
here = os.path.dirname(os.path.dirname(os.path.abspath(__file__)))
sys.path.insert(0, here)
import vsim
from vsim import shim, engine, migen_engine
from vsim.runner import load_prop, run_seed

ALL = ["C01", "C03", "C07", "C08", "C09", "C10", "C11", "C12", "C13", "C14", "C15", "C18", "C19", "C20"]


def engine_eq(props, per_prop=4, max_cycles=1200):
    import copy
    bad = 0
    for p in props:
        mod = load_prop(p)
        done = 0
        i = 0
        while done < per_prop and i < 400:
            scn = mod.gen(random.Random(run_seed(0, p, i)), "quick", i)
            i += 1
            shim.reset_tracer()
            t0 = time.time()
            a = mod.run(copy.deepcopy(scn))
            if a["cycles"] > max_cycles or a["cycles"] == 0:
                continue
            ta = time.time() - t0
            # same scenario on migen.sim's evaluator
            saved = []
            import vsim.corebench as cb
            for m in (mod, cb):
                if hasattr(m, "Sim"):
                    saved.append((m, m.Sim))
                    m.Sim = migen_engine.MigenSim
            try:
                shim.reset_tracer()
                t0 = time.time()
                b = mod.run(copy.deepcopy(scn))
                tb = time.time() - t0
            finally:
                for m, s in saved:
                    m.Sim = s
            ok = a["digest"] == b["digest"] and a["cycles"] == b["cycles"] and \
                [v["oracle"] for v in a["violations"]] == [v["oracle"] for v in b["violations"]]
            print("%s run %d: %d cycles, digest %s / %s, violations %d / %d, %.2fs vs %.2fs  %s"
                  % (p, i - 1, a["cycles"], a["digest"], b["digest"], len(a["violations"]), len(b["violations"]), ta, tb, "OK" if ok else "MISMATCH"))
            bad += 0 if ok else 1
            done += 1
    print("engine equivalence: %s" % ("all identical" if not bad else "%d MISMATCH" % bad))
    return bad


def determinism(props, runs=24):
    bad = 0
    for p in props:
        outs = []
        for hs, jobs in (("0", 16), ("12345", 16), ("0", 1)):
            env = dict(os.environ, VSIM_HASHSEED=hs)
            r = subprocess.run([os.path.join(here, "check"), p, "--runs", str(runs), "--jobs", str(jobs), "--digests", "--no-evidence", "--no-shrink"],
                               env=env, capture_output=True, text=True)
            outs.append(sorted(l for l in r.stdout.splitlines() if l.startswith("DIGEST")))
        ok = outs[0] == outs[1] == outs[2] and len(outs[0]) == runs
        print("%s: %d digests, hashseed 0/12345 and 16/1 workers %s" % (p, len(outs[0]), "identical" if ok else "DIFFER"))
        bad += 0 if ok else 1
    return bad


if __name__ == "__main__":
    what = sys.argv[1] if len(sys.argv) > 1 else "engine"
    props = sys.argv[2:] or ALL
    rc = engine_eq(props) if what == "engine" else determinism(props)
    sys.exit(1 if rc else 0)
