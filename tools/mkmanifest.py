#!/usr/bin/env python3
"""Regenerate /verif/MANIFEST.json from the property modules present under vsim/props."""
import json, os, sys, importlib
here = os.path.dirname(os.path.dirname(os.path.abspath(__file__)))
sys.path.insert(0, here)
import vsim  # noqa
props = [json.loads(l) for l in open(os.path.join(here, "properties.jsonl"))]
NA = {
    "C16": "pure function of configuration (SDRAMModule(...).timing_settings): no schedule, clock, fault or interleaving to simulate; "
           "its consequences on the bus are covered by C03/C04 which measure against datasheet ns with the conversion in the loop (DESIGN.md §6)",
    "C17": "pure function of settings objects (init sequence / header emitters): nothing executes over time, no pad-level DRAM consumes the "
           "sequence for the property's memory types (DESIGN.md §6)",
}
checks = []
na = []
for p in props:
    pid = p["id"]
    try:
        mod = importlib.import_module("vsim.props.%s" % pid.lower())
    except ModuleNotFoundError:
        na.append({"property_id": pid, "reason": NA.get(pid, "no check registered in this revision of /verif (work in progress, see DESIGN.md §5)")})
        continue
    checks.append({
        "property_id": pid,
        "quick_cmd": "./check %s --tier quick" % pid,
        "thorough_cmd": "./check %s --tier thorough" % pid,
        "evidence_file": "/verif/evidence/%s.json" % pid,
        "replay_cmd_template": "./check %s --replay {path}" % pid,
        "engine": "vsim",
        "level_claimed": {"category": mod.LEVEL, "text": mod.LEVEL_TEXT, "design_ref": "DESIGN.md §5 %s" % pid},
        "level_note": mod.LEVEL_NOTE,
        "technique": getattr(mod, "TECHNIQUE", "deterministic simulation with fault injection: seeded schedules/faults on the real Migen modules, reference-model oracle, ddmin-shrunk replay file"),
    })
m = {
    "version": 1,
    "setup_cmd": "/venv/bin/python -c 'import migen, litex; print(\"vsim: python env ok\")'",
    "hooks": {
        "guard": "LITEDRAM_VERIF",
        "enable": "none needed: no hook was added to /repo (all seams are Migen signals reachable from the harness); checks export LITEDRAM_VERIF=1 for completeness",
        "baseline_off_cmd": "cd /repo && /venv/bin/python -m pytest -ra -q -p no:cacheprovider --timeout=900 --continue-on-collection-errors",
        "source_commits": [],
        "add_only": True,
    },
    "engines": [{"name": "vsim", "path": "/verif/vsim", "serves_properties": [c["property_id"] for c in checks],
                 "kind_free_text": "compiled Migen-fragment evaluator + multi-clock discrete-event kernel + seeded scenario generator, fault injection, ddmin shrinker, replay (DESIGN.md §2-3)"}],
    "checks": checks,
    "not_applicable": na,
    "notes": "All checks: ./check <ID> [--tier quick|thorough] [--replay file]; VERIF_SEED selects the batch; known_findings.json lists fixed/open findings.",
}
json.dump(m, open(os.path.join(here, "MANIFEST.json"), "w"), indent=1)
print("checks:", [c["property_id"] for c in checks], "n/a:", [n["property_id"] for n in na])
