#!/bin/sh
# usage: tools/seedtest.sh <PROP> <patch.diff> [extra check args]   -> runs ./check PROP against a scratch worktree of /repo HEAD + patch
prop=$1; patch=$2; shift 2
name=$(echo "$patch" | tr '/.' '__')
wt=/tmp/mut/$name
rm -rf "$wt"; mkdir -p /tmp/mut
git -C /repo worktree add --detach "$wt" HEAD -q || exit 2
if ! git -C "$wt" apply "$patch" 2>/dev/null; then
  if ! git -C "$wt" apply --3way "$patch" 2>/dev/null; then echo "PATCH-DOES-NOT-APPLY $patch"; git -C /repo worktree remove --force "$wt"; exit 3; fi
fi
cd "$(dirname "$0")/.."
VSIM_REPO="$wt" ./check "$prop" --no-evidence "$@" 2>&1 | grep -v "^KNOWN-FINDING" | tail -4
rc=$?
git -C /repo worktree remove --force "$wt"
