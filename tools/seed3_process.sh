#!/bin/sh
# usage: tools/seed3_process.sh <ID> <mN> [srcdir]  (round 3: notes.md becomes README.md)
# Confirm a sub-agent's seeded change in a fresh scratch worktree of /repo HEAD (demo exits 0 without it, non-zero with it, the 258 pinned
# tests still pass with it), import it into /verif/seeded/<ID>-<mN>/ and run the property's quick check against it.
id=$1; m=$2; src=${3:-/tmp/r3/$id-out}
dst=/verif/seeded/$id-$m
wt=/tmp/mut/s2_${id}_${m}
mkdir -p /tmp/mut; rm -rf $wt
[ -f $src/patch.diff ] || { echo "$id $m NO-PATCH"; exit 3; }
git -C /repo worktree add --detach $wt HEAD -q || exit 2
cd $wt
PYTHONPATH=$wt timeout 1200 /venv/bin/python $src/demo.py >/tmp/mut/$id$m.base.log 2>&1; b=$?
if ! git apply $src/patch.diff 2>/dev/null; then echo "$id $m PATCH-DOES-NOT-APPLY"; cd /; git -C /repo worktree remove --force $wt; exit 3; fi
PYTHONPATH=$wt timeout 1200 /venv/bin/python $src/demo.py >/tmp/mut/$id$m.mut.log 2>&1; a=$?
pinned=$(/verif/tools/run_pinned.sh $wt | head -4 | tr '\n' ' ')
rm -f $wt/*.vcd
mkdir -p $dst; cp $src/patch.diff $src/demo.py $dst/; cp $src/notes.md $dst/README.md 2>/dev/null
cd /verif
res=$(VSIM_REPO=$wt ./check $id --no-evidence --no-shrink 2>&1)
orc=$(echo "$res" | grep "^violation:" | head -1 | sed 's/violation: oracle=\([^ ]*\).*/\1/')
if echo "$res" | grep -q "^VIOLATION"; then r="caught"; else r="MISSED"; fi
git -C /repo worktree remove --force $wt
python3 - "$dst" "$id" "$m" "$b" "$a" "$pinned" "$r" "$orc" <<'PY'
import json,sys,re
dst,pid,m,b,a,pinned,r,orc=sys.argv[1:9]
files=sorted(set(re.findall(r"^\+\+\+ b/(\S+)", open(dst+"/patch.diff").read(), re.M)))
meta={"property":pid,"change":m,"files_touched":files,
 "origin":"independent sub-agent (round 3) given only the property text and a scratch worktree of /repo HEAD",
 "needs_to_manifest":"see README.md (agent's description of the trigger)",
 "patch_applies_to":"/repo HEAD",
 "confirmed":{"worktree":"fresh scratch worktree of /repo HEAD","demo_exit_without_change":int(b),"demo_exit_with_change":int(a),"pinned_tests_with_change":pinned.strip()},
 "check_result":{"check":"./check %s --tier quick"%pid,"result":r,"oracle":orc}}
json.dump(meta,open(dst+"/meta.json","w"),indent=1)
PY
echo "$id $m demo_without=$b demo_with=$a [$pinned] check=$r $orc"
