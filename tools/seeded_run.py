#!/usr/bin/env python3
"""Run the quick tier of each property's check against every seeded change (scratch worktree of /repo HEAD + patch, via tools/seedtest.sh);
writes seeded/SUMMARY.md and records the result in each meta.json.   usage: tools/seeded_run.py [-j N] [ids...]"""
import glob, json, os, re, subprocess, sys
from concurrent.futures import ThreadPoolExecutor

V = os.path.dirname(os.path.dirname(os.path.abspath(__file__)))
args = sys.argv[1:]
jobs = 3
if args[:1] == ["-j"]:
    jobs = int(args[1]); args = args[2:]
dirs = sorted(glob.glob(V + "/seeded/C*-m*"))
if args:
    dirs = [d for d in dirs if os.path.basename(d) in args]


def one(d):
    cid = os.path.basename(d)
    prop = cid.split("-")[0]
    p = subprocess.run([V + "/tools/seedtest.sh", prop, d + "/patch.diff", "--no-shrink"], capture_output=True, text=True)
    out = p.stdout + p.stderr
    m = re.search(r"^violation: oracle=(\S+)", out, re.M)
    orc = m.group(1) if m else ""
    nv = re.search(r"(\d+) violating run", out)
    res = "caught" if re.search(r"^VIOLATION", out, re.M) else ("patch does not apply" if "PATCH-DOES-NOT-APPLY" in out else "MISSED")
    meta = json.load(open(d + "/meta.json"))
    meta["check_result"] = {"check": "./check %s --tier quick" % prop, "result": res, "oracle": orc, "violating_runs": int(nv.group(1)) if nv else 0}
    json.dump(meta, open(d + "/meta.json", "w"), indent=1)
    print(cid, res, orc, flush=True)
    return cid, meta, res, orc


with ThreadPoolExecutor(jobs) as ex:
    rows = list(ex.map(one, dirs))
if not args:
    with open(V + "/seeded/SUMMARY.md", "w") as f:
        f.write("# Seeded changes vs. checks (quick tier, VERIF_SEED=0)\n\n")
        f.write("%d changes, %d caught.\n\n" % (len(rows), sum(1 for r in rows if r[2] == "caught")))
        f.write("| change | files | result | first oracle reported | violating runs |\n|---|---|---|---|---|\n")
        for cid, meta, res, orc in rows:
            f.write("| %s | %s | %s | %s | %s |\n" % (cid, ", ".join(meta["files_touched"]), res, orc, meta["check_result"]["violating_runs"]))
print("%d changes, %d caught" % (len(rows), sum(1 for r in rows if r[2] == "caught")))
