#!/usr/bin/env python3
"""Import the sub-agents' seeded changes into /verif/seeded/<id>-m<n>/ (patch, demo, README, meta.json)."""
import os, re, json, shutil, subprocess, glob
V = "/verif/seeded"
conf = {}
for log in ("/tmp/mut/confirm1.log", "/tmp/mut/confirm2.log", "/tmp/mut/confirm3.log", "/tmp/mut/confirm_c03.log"):
    if os.path.exists(log):
        for l in open(log):
            m = re.match(r"(C\d+) (m\d)( \(orig worktree\))? demo_without=(\d+) demo_with=(\d+) tests_rc=(\S+) \((.*)\)", l)
            if m:
                k = (m.group(1), m.group(2))
                rec = {"worktree": "agent's worktree at the pinned commit" if m.group(3) else "scratch worktree of /repo HEAD (with the fix: commits)",
                       "demo_exit_without_change": int(m.group(4)), "demo_exit_with_change": int(m.group(5)),
                       "pinned_tests_with_change": m.group(7), "pinned_tests_rc": m.group(6)}
                if k not in conf or (rec["demo_exit_without_change"] == 0 and rec["demo_exit_with_change"] != 0):
                    conf[k] = rec
for d in sorted(glob.glob("/tmp/seed/out/C*/m[12]")):
    pid, m = d.split("/")[-2], d.split("/")[-1]
    dst = os.path.join(V, "%s-%s" % (pid, m))
    os.makedirs(dst, exist_ok=True)
    ported = os.path.exists(os.path.join(dst, "patch.diff")) and open(os.path.join(dst, "patch.diff")).read() != open(os.path.join(d, "patch.diff")).read()
    if ported:
        shutil.copy(os.path.join(d, "patch.diff"), os.path.join(dst, "patch.orig.diff"))
    else:
        shutil.copy(os.path.join(d, "patch.diff"), os.path.join(dst, "patch.diff"))
    for f in ("demo.py", "README.md"):
        if os.path.exists(os.path.join(d, f)):
            shutil.copy(os.path.join(d, f), os.path.join(dst, f))
    readme = open(os.path.join(d, "README.md")).read() if os.path.exists(os.path.join(d, "README.md")) else ""
    files = sorted(set(re.findall(r"^\+\+\+ b/(\S+)", open(os.path.join(dst, "patch.diff")).read(), re.M)))
    meta = {"property": pid, "change": m, "files_touched": files,
            "origin": "independent sub-agent given only the property text and a scratch worktree",
            "needs_to_manifest": "see README.md (agent's description of the trigger)",
            "patch_applies_to": "/repo HEAD" + (" (ported by hand: the original, patch.orig.diff, touches lines changed by a fix: commit)" if ported else ""),
            "confirmed": conf.get((pid, m), {"note": "not re-run"}),
            "agent_full_suite": "agent reports the full pinned suite unchanged with the change applied (see README.md)"}
    json.dump(meta, open(os.path.join(dst, "meta.json"), "w"), indent=1)
    print(pid, m, "ported" if ported else "", conf.get((pid, m), {}).get("demo_exit_without_change"), conf.get((pid, m), {}).get("demo_exit_with_change"))
