#!/bin/sh
# confirm a seeded change in the agent's own worktree /tmp/seed/<ID> (demo asserts that path)
id=$1; m=$2; tests=$3
wt=/tmp/seed/$id; src=/tmp/seed/out/$id/$m
cd $wt || exit 2
git checkout -q -- . 
PYTHONPATH=$wt timeout 900 /venv/bin/python $src/demo.py >/tmp/mut/$id$m.base.log 2>&1; b=$?
git apply $src/patch.diff || { echo "$id $m PATCH-DOES-NOT-APPLY"; exit 3; }
PYTHONPATH=$wt timeout 900 /venv/bin/python $src/demo.py >/tmp/mut/$id$m.mut.log 2>&1; a=$?
t=skipped
if [ -n "$tests" ]; then PYTHONPATH=$wt timeout 1800 /venv/bin/python -m pytest -q -p no:cacheprovider $tests >/tmp/mut/$id$m.test.log 2>&1; t=$?; fi
echo "$id $m (orig worktree) demo_without=$b demo_with=$a tests_rc=$t ($(tail -1 /tmp/mut/$id$m.test.log 2>/dev/null))"
git checkout -q -- .; rm -f *.vcd
